(* C10 — a merchant appears in a view exactly when the view's filter is true of it.

   Part A: the membership loop classify_by_sections -> classify_merchants -> compute_section_totals
   (C10/Model.v), for EVERY filter evaluator: filter_true / globals_ok are universally quantified
   (they were Section variables), so the theorems hold for CPython's evaluator, for the modelled
   one and for an oracle table alike.
   Part B: the modelled view evaluator (C10/ViewEval.v: ExpressionContext + ExpressionEvaluator over
   exact rationals, sqrt symbolic): what months / total / cv / by compute, that nothing escapes it,
   and the membership theorems instantiated at it.
   The three full statements that the pre-fix tree refuted (duplicate view names merged, by("day"|"week")
   collapsed to month, mixed-case variable names unreachable) are theorems about the current tree:
   c10_membership, c10_by_own_payments, c10_variable_lookup.  What remains of the old refutation is
   c10_loop_needs_distinct_names: the loop ALONE still merges equal names — parse_sections' duplicate
   check (ViewEval.parse_ok) is what rules them out. *)
From Coq Require Import String List Bool ZArith QArith Permutation Sorted.
From Tally Require Import Lib.Str C10.Model C10.Proofs C10.ViewEval C10.EvalProofs.
Import ListNotations.
Open Scope Q_scope.

(* ============================== Part A: any evaluator ======================================= *)

(* the loop on its own, for arbitrary view lists: in a completed run every view lists exactly the selected
   merchants.  NOT a property of the loop alone (history: this is how the pre-fix tree failed) ... *)
Definition c10_loop_membership_unguarded : Prop :=
  forall (M V : Type) (excl : M -> bool) (vname : V -> string) (gok : M -> bool) (ft : V -> M -> outcome)
         (vs : list V) (ms : list M) (r : list (string * list M)) (v : V),
    In v vs -> classify excl vname gok ft vs ms = Some r ->
    members r (vname v) = filter (selected excl ft v) ms.

(* ... two views that share a name feed the one list kept under that name; the guard NoDup (below) is
   discharged for the tree by parse_sections rejecting duplicate names (c10_membership, Part B) *)
Theorem c10_loop_needs_distinct_names : ~ c10_loop_membership_unguarded.
Proof.
  intros H.
  specialize (H nat (string * bool)%type (fun _ => false) fst (fun _ => true)
                (fun v _ => if snd v then OTrue else OFalse)
                [("A"%string, true); ("A"%string, false)] [7%nat] [("A"%string, [7%nat])] ("A"%string, false)).
  simpl in H. specialize (H (or_intror (or_introl eq_refl)) eq_refl). discriminate.
Qed.
Print Assumptions c10_loop_needs_distinct_names.

(* with distinct view names it holds, as an equality of lists (each selected merchant once, in order) *)
Theorem c10_membership_partial :
  forall (M V : Type) (excl : M -> bool) (vname : V -> string) (gok : M -> bool) (ft : V -> M -> outcome)
         (vs : list V) (ms : list M) (r : list (string * list M)) (v : V),
    NoDup (map vname vs) -> In v vs -> classify excl vname gok ft vs ms = Some r ->
    members r (vname v) = filter (selected excl ft v) ms.
Proof. intros M V excl vname gok ft. exact (membership_list excl vname gok ft). Qed.
Print Assumptions c10_membership_partial.

Theorem c10_membership_iff :
  forall (M V : Type) (excl : M -> bool) (vname : V -> string) (gok : M -> bool) (ft : V -> M -> outcome)
         (vs : list V) (ms : list M) (r : list (string * list M)) (v : V) (m : M),
    NoDup (map vname vs) -> In v vs -> classify excl vname gok ft vs ms = Some r ->
    (In m (members r (vname v)) <-> In m ms /\ excl m = false /\ ft v m = OTrue).
Proof. intros M V excl vname gok ft. exact (membership_iff excl vname gok ft). Qed.
Print Assumptions c10_membership_iff.

(* what the single list under a name holds in general (no guard): one copy per true view of that name *)
Theorem c10_members_general :
  forall (M V : Type) (excl : M -> bool) (vname : V -> string) (gok : M -> bool) (ft : V -> M -> outcome)
         (vs : list V) (ms : list M) (r : list (string * list M)) (n : string),
    classify excl vname gok ft vs ms = Some r ->
    members r n = if named vname vs n then flat_map (hits vname ft vs n) (groups excl ms) else [].
Proof. intros M V excl vname gok ft. exact (members_general excl vname gok ft). Qed.
Print Assumptions c10_members_general.

(* an ExpressionError keeps the merchant out of the view ... *)
Theorem c10_filter_error_excludes :
  forall (M V : Type) (excl : M -> bool) (vname : V -> string) (gok : M -> bool) (ft : V -> M -> outcome)
         (vs : list V) (ms : list M) (r : list (string * list M)) (v : V) (m : M),
    NoDup (map vname vs) -> In v vs -> classify excl vname gok ft vs ms = Some r ->
    ft v m = OExprError -> ~ In m (members r (vname v)).
Proof. intros M V excl vname gok ft. exact (error_excludes excl vname gok ft). Qed.
Print Assumptions c10_filter_error_excludes.

(* ... and the run completes as long as nothing OTHER than ExpressionError is raised *)
Theorem c10_run_completes :
  forall (M V : Type) (excl : M -> bool) (vname : V -> string) (gok : M -> bool) (ft : V -> M -> outcome)
         (vs : list V) (ms : list M),
    (forall m, In m ms -> excl m = false -> gok m = true) ->
    (forall m v, In m ms -> excl m = false -> In v vs -> ft v m <> OCrash) ->
    exists r, classify excl vname gok ft vs ms = Some r.
Proof. intros M V excl vname gok ft. exact (run_completes excl vname gok ft). Qed.
Print Assumptions c10_run_completes.

(* the loop itself catches nothing: were an evaluator to let another exception out (OCrash), the whole
   run would be lost — this is why Part B proves that the evaluator never does *)
Theorem c10_crash_would_abort :
  forall (M V : Type) (excl : M -> bool) (vname : V -> string) (gok : M -> bool) (ft : V -> M -> outcome)
         (vs : list V) (ms : list M) (v : V) (m : M),
    In m ms -> excl m = false -> In v vs -> ft v m = OCrash -> classify excl vname gok ft vs ms = None.
Proof. intros M V excl vname gok ft. exact (crash_aborts excl vname gok ft). Qed.
Print Assumptions c10_crash_would_abort.

(* views are independent: any two completed runs whose (duplicate-free) view lists both contain v —
   views added, removed, reordered — give v the same member list *)
Theorem c10_views_independent :
  forall (M V : Type) (excl : M -> bool) (vname : V -> string) (gok : M -> bool) (ft : V -> M -> outcome)
         (vs1 vs2 : list V) (ms : list M) (r1 r2 : list (string * list M)) (v : V),
    NoDup (map vname vs1) -> NoDup (map vname vs2) -> In v vs1 -> In v vs2 ->
    classify excl vname gok ft vs1 ms = Some r1 -> classify excl vname gok ft vs2 ms = Some r2 ->
    members r1 (vname v) = members r2 (vname v).
Proof. intros M V excl vname gok ft. exact (views_independent excl vname gok ft). Qed.
Print Assumptions c10_views_independent.

(* each view's total is the sum of its members' totals = the sum over the selected merchants *)
Theorem c10_view_total_is_sum :
  forall (M V : Type) (excl : M -> bool) (vname : V -> string) (gok : M -> bool) (ft : V -> M -> outcome)
         (mtotal : M -> Q) (vs : list V) (ms : list M) (r : list (string * list M)) (v : V),
    NoDup (map vname vs) -> In v vs -> classify excl vname gok ft vs ms = Some r ->
    view_total mtotal r (vname v) = sumQ (map mtotal (members r (vname v))) /\
    view_total mtotal r (vname v) == sumQ (map (fun m => if selected excl ft v m then mtotal m else 0) ms) /\
    view_count r (vname v) = length (filter (selected excl ft v) ms).
Proof. intros M V excl vname gok ft mtotal. exact (view_total_is_sum excl vname gok ft mtotal). Qed.
Print Assumptions c10_view_total_is_sum.

(* ============================== Part B: the modelled evaluator ============================== *)

(* months = number of distinct year-month keys among the payments, for ANY duplicate-free enumeration *)
Theorem c10_months_spec :
  forall (c : ctx) (ks : list Z),
    NoDup ks -> (forall k, In k ks <-> exists p, In p (c_txns c) /\ month_key p = k) ->
    get_months c = VNum (inject_Z (Z.of_nat (Nat.max 1 (length ks)))) true.
Proof. exact months_spec. Qed.
Print Assumptions c10_months_spec.

(* total = sum of the payments, whatever their order *)
Theorem c10_total_spec :
  forall c : ctx, exists s e, get_total c = VNum s e /\ s == sumQ (map p_amount (c_txns c)) /\
                              forall l, Permutation l (map p_amount (c_txns c)) -> s == sumQ l.
Proof. exact total_spec. Qed.
Print Assumptions c10_total_spec.

(* cv = population coefficient of variation of the monthly totals: 0 with fewer than two months or
   a zero mean, otherwise sign(mean) * sqrt(popvar / mean^2); mean and popvar are order-independent *)
Theorem c10_cv_spec :
  forall (c : ctx) (v : value),
    get_cv c = Val v ->
    let txns := c_txns c in
    let ks := month_keys txns in
    let mean := mean_of txns ks in
    let var := popvar_of txns ks in
    (NoDup ks /\ forall k, In k ks <-> exists p, In p txns /\ month_key p = k) /\
    (forall ks', Permutation ks ks' -> mean == mean_of txns ks' /\ var == popvar_of txns ks') /\
    ((length ks < 2)%nat -> v = VNum 0 true) /\
    ((2 <= length ks)%nat -> mean == 0 -> v = VNum 0 true) /\
    ((2 <= length ks)%nat -> ~ mean == 0 ->
       (v = VNum 0 true /\ var == 0) \/ (exists q, v = VRoot (is_neg mean) q /\ q == var / qsq mean)).
Proof.
  intros c v H txns ks mean var. split; [apply month_keys_spec|].
  split; [intros ks' P; split; [now apply mean_perm|now apply popvar_perm]|].
  exact (cv_spec c v H).
Qed.
Print Assumptions c10_cv_spec.

(* by(field) over a context: one group per distinct key, in increasing key order, each group that
   key's payments in their original order *)
Theorem c10_by_spec :
  forall (c : ctx) (f : field),
    exists ks, StronglySorted Z.lt ks /\
      (forall k, In k ks <-> exists p, In p (c_txns c) /\ key_of f p = k) /\
      get_by c f = VList (map (fun k => VList (map pay_val (filter (fun p => (key_of f p =? k)%Z) (c_txns c)))) ks).
Proof. exact by_spec. Qed.
Print Assumptions c10_by_spec.

(* full statement: everything a filter sees — payments, their dates, hence every by()-grouping incl.
   by("day") and by("week") — is the merchant's OWN payments *)
Definition c10_by_own_payments_statement : Prop :=
  forall (pm py : Z) (m : merchant) (f : field),
    ctx_of pm py m = ctx_own pm py m /\ get_by (ctx_of pm py m) f = get_by (ctx_own pm py m) f.

Theorem c10_by_own_payments : c10_by_own_payments_statement.
Proof. intros pm py m f. split; [apply ctx_of_own|now rewrite ctx_of_own]. Qed.
Print Assumptions c10_by_own_payments.

(* in particular three payments on three days of one month are three by("day") groups *)
Example c10_by_day_example :
  get_by (ctx_of 1 1 {| m_name := "A"; m_category := "Food"; m_subcategory := ""; m_tags := [];
                        m_payments := [ {| p_year := 2025; p_month := 1; p_day := 3; p_amount := 10 |};
                                        {| p_year := 2025; p_month := 1; p_day := 10; p_amount := 20 |};
                                        {| p_year := 2025; p_month := 1; p_day := 20; p_amount := 5 |} ] |}) FDay
  = VList [VList [VNum 10 true]; VList [VNum 20 true]; VList [VNum 5 true]].
Proof. vm_compute. reflexivity. Qed.

Theorem c10_months_total_cv_own :
  forall (pm py : Z) (m : merchant),
    get_months (ctx_of pm py m) = get_months (ctx_own pm py m) /\
    get_total (ctx_of pm py m) = get_total (ctx_own pm py m) /\
    get_cv (ctx_of pm py m) = get_cv (ctx_own pm py m).
Proof. intros pm py m. now rewrite ctx_of_own. Qed.
Print Assumptions c10_months_total_cv_own.

(* full statement: a variable defined in the views file (global or view-local, any letter case) has a
   value once the definitions are evaluated, and every spelling of its name reads that value *)
Definition c10_variable_lookup_statement : Prop :=
  forall (raw : defs) (c : ctx) (start env : env) (n : string) (e : expr) (n' : string),
    In (n, e) raw -> eval_vars (norm_defs raw) c start = Val env -> lower n' = lower n ->
    exists v, alookup (lower n) env = Some v /\ evaluate env c (EName n') = Val v.

Theorem c10_variable_lookup : c10_variable_lookup_statement.
Proof. exact variable_reachable. Qed.
Print Assumptions c10_variable_lookup.

Example c10_variable_example :
  option_map (fun env => evaluate env {| c_txns := []; c_category := ""; c_subcategory := ""; c_merchant := ""; c_tags := [];
                                         c_period_month := 1; c_period_year := 1 |} (EName "BIG"))
             (match eval_vars (norm_defs [("Big"%string, EConst (CBool true))])
                              {| c_txns := []; c_category := ""; c_subcategory := ""; c_merchant := ""; c_tags := [];
                                 c_period_month := 1; c_period_year := 1 |} [] with Val env => Some env | _ => None end)
  = Some (Val (VBool true)).
Proof. vm_compute. reflexivity. Qed.

(* nothing but ExpressionError leaves the evaluator, so the modelled pipeline always completes:
   a filter (or variable) that cannot be evaluated never fails the run *)
Theorem c10_model_run_never_aborts :
  forall (cfg : config) (ms : list merchant) (fbg : merchant -> bool) (fb : view -> merchant -> outcome),
    (forall m, fbg m = true) -> (forall v m, fb v m <> OCrash) ->
    exists r, classify_by_sections cfg ms fbg fb = Some r.
Proof. exact model_run_never_aborts. Qed.
Print Assumptions c10_model_run_never_aborts.

(* the membership theorem at the modelled pipeline: listed <-> not excluded and the filter is true *)
Theorem c10_model_membership_iff :
  forall (cfg : config) (ms : list merchant) (fbg : merchant -> bool) (fb : view -> merchant -> outcome)
         (r : list (string * list merchant)) (v : view) (m : merchant),
    NoDup (map v_name (g_views cfg)) -> In v (g_views cfg) ->
    classify_by_sections cfg ms fbg fb = Some r ->
    (In m (members r (v_name v)) <->
     In m ms /\ excluded m = false /\ model_filter_true cfg ms fb v m = OTrue).
Proof.
  intros cfg ms fbg fb r v m ND HI H.
  exact (membership_iff excluded v_name (model_globals_ok cfg ms fbg) (model_filter_true cfg ms fb)
                        (g_views cfg) ms r v m ND HI H).
Qed.
Print Assumptions c10_model_membership_iff.

(* FULL statement about the tree: for every views file parse_sections accepts, every view lists exactly
   the non-excluded merchants of which its filter is true — once each, in merchant order — and its total
   is the sum of their totals.  No guard on names is left: parse_sections rejects duplicates. *)
Definition c10_membership_statement : Prop :=
  forall (cfg : config) (ms : list merchant) (fbg : merchant -> bool) (fb : view -> merchant -> outcome)
         (r : list (string * list merchant)) (v : view),
    parse_ok cfg = true -> In v (g_views cfg) -> classify_by_sections cfg ms fbg fb = Some r ->
    members r (v_name v) = filter (fun m => negb (excluded m) && is_true (model_filter_true cfg ms fb v m))%bool ms /\
    view_total m_total r (v_name v) = sumQ (map m_total (members r (v_name v))).

Theorem c10_membership : c10_membership_statement.
Proof.
  intros cfg ms fbg fb r v P HI H. split; [|reflexivity].
  exact (membership_list excluded v_name (model_globals_ok cfg ms fbg) (model_filter_true cfg ms fb)
                         (g_views cfg) ms r v (parse_ok_nodup cfg P) HI H).
Qed.
Print Assumptions c10_membership.

Example c10_duplicate_names_rejected :
  parse_ok {| g_vars := []; g_views := [ {| v_name := "X"; v_vars := []; v_filter := EConst (CBool true) |};
                                         {| v_name := "X"; v_vars := []; v_filter := EConst (CBool false) |} ]%string |} = false.
Proof. reflexivity. Qed.

(* independence at the modelled pipeline, with no completion hypotheses left: two views files with the
   same global variables that both contain view v give v the same members *)
Theorem c10_model_views_independent :
  forall (gv : defs) (vs1 vs2 : list view) (ms : list merchant) (fbg : merchant -> bool)
         (fb : view -> merchant -> outcome) (v : view),
    (forall m, fbg m = true) -> (forall w m, fb w m <> OCrash) ->
    NoDup (map v_name vs1) -> NoDup (map v_name vs2) -> In v vs1 -> In v vs2 ->
    exists r1 r2,
      classify_by_sections {| g_vars := gv; g_views := vs1 |} ms fbg fb = Some r1 /\
      classify_by_sections {| g_vars := gv; g_views := vs2 |} ms fbg fb = Some r2 /\
      members r1 (v_name v) = members r2 (v_name v).
Proof.
  intros gv vs1 vs2 ms fbg fb v G F N1 N2 I1 I2.
  destruct (model_run_never_aborts {| g_vars := gv; g_views := vs1 |} ms fbg fb G F) as [r1 H1].
  destruct (model_run_never_aborts {| g_vars := gv; g_views := vs2 |} ms fbg fb G F) as [r2 H2].
  exists r1, r2. split; [exact H1|]. split; [exact H2|].
  exact (views_independent excluded v_name (model_globals_ok {| g_vars := gv; g_views := vs1 |} ms fbg)
           (model_filter_true {| g_vars := gv; g_views := vs1 |} ms fb) vs1 vs2 ms r1 r2 v N1 N2 I1 I2 H1 H2).
Qed.
Print Assumptions c10_model_views_independent.

(* ============================== Part C: dates, tags, and where the merchants come from ============ *)

(* by(): the groups partition the payments (every payment in exactly one group), none is empty *)
Theorem c10_by_partition :
  forall (c : ctx) (f : field),
    exists groups : list (list value),
      get_by c f = VList (map VList groups) /\
      Permutation (concat groups) (map pay_val (c_txns c)) /\
      Forall (fun g => g <> []) groups.
Proof. exact by_partition. Qed.
Print Assumptions c10_by_partition.

(* by("week") ('%Y-W%W'): two valid dates share a group iff same calendar year and same Monday-based week *)
Theorem c10_week_key_spec :
  forall p1 p2 : payment,
    valid_md (p_month p1) (p_day p1) -> valid_md (p_month p2) (p_day p2) ->
    (key_of FWeek p1 = key_of FWeek p2 <->
     p_year p1 = p_year p2 /\
     monday_of (ordinal (p_year p1) (p_month p1) (p_day p1)) = monday_of (ordinal (p_year p2) (p_month p2) (p_day p2))).
Proof. exact week_key_spec. Qed.
Print Assumptions c10_week_key_spec.

(* New Year's week: 2025-12-30 and 2025-01-03 are different groups (ISO week 1 both), 2025-12-29..31 one group,
   29 Feb 2024 is its own day *)
Example c10_week_examples :
  let P y m d := {| p_year := y; p_month := m; p_day := d; p_amount := 1 |} in
  (key_of FWeek (P 2025 12 30) =? key_of FWeek (P 2025 1 3))%Z = false /\
  (key_of FWeek (P 2025 12 29) =? key_of FWeek (P 2025 12 31))%Z = true /\
  (key_of FWeek (P 2026 1 1) =? key_of FWeek (P 2025 12 31))%Z = false /\
  (key_of FDay (P 2024 2 29) - key_of FDay (P 2024 2 15) =? 14)%Z = true /\
  (key_of FDay (P 2024 3 1) - key_of FDay (P 2024 2 29) =? 1)%Z = true.
Proof. vm_compute. repeat split; reflexivity. Qed.

(* `"x" in tags`: true iff some tag of the merchant equals x after lower-casing both *)
Theorem c10_tag_membership :
  forall (c : ctx) (a : string), c_txns c <> [] ->
    exists b, py_in (VStr a) (get_tags c) = Val b /\
              (b = true <-> exists t, In t (c_tags c) /\ lower t = lower a).
Proof. exact tag_membership. Qed.
Print Assumptions c10_tag_membership.

(* by_merchant (analyze_transactions): the merchants are the distinct names; a merchant's payments and tags
   are exactly those of ITS OWN transactions, in order *)
Theorem c10_by_merchant_spec :
  forall txns : list txn,
    NoDup (map m_name (by_merchant txns)) /\
    (forall n, In n (map m_name (by_merchant txns)) <-> exists t, In t txns /\ t_merchant t = n) /\
    (forall m, In m (by_merchant txns) ->
       m_payments m = map eff (filter (of_merchant (m_name m)) txns) /\
       m_tags m = flat_map t_tags (filter (of_merchant (m_name m)) txns)).
Proof. exact by_merchant_spec. Qed.
Print Assumptions c10_by_merchant_spec.

(* a merchant is kept out of every view iff one of its own transactions is tagged income / transfer /
   investment, in any letter case *)
Theorem c10_excluded_spec :
  forall (txns : list txn) (m : merchant), In m (by_merchant txns) ->
    (excluded m = true <->
     exists t tag, In t txns /\ t_merchant t = m_name m /\ In tag (t_tags t) /\
                   (lower tag = "income" \/ lower tag = "transfer" \/ lower tag = "investment")%string).
Proof. exact by_merchant_excluded. Qed.
Print Assumptions c10_excluded_spec.

Example c10_by_merchant_example :
  let T n tg y m d a := {| t_merchant := n; t_category := "Food"; t_subcategory := ""; t_tags := tg;
                           t_pay := {| p_year := y; p_month := m; p_day := d; p_amount := a |} |} in
  map (fun m => (m_name m, map p_amount (m_payments m), excluded m))
      (by_merchant [T "A" [] 2025%Z 1%Z 3%Z 10; T "B" ["x"] 2025%Z 1%Z 4%Z (-5); T "A" ["food"] 2025%Z 2%Z 1%Z 20;
                    T "B" ["INCOME"] 2025%Z 2%Z 2%Z (-7)])
  = [("A", [10; 20], false); ("B", [-5; 7], true)]%string.
Proof. vm_compute. reflexivity. Qed.

(* ============================== non-vacuity ================================================= *)
Definition ex_ms : list merchant :=
  [ {| m_name := "Acme"; m_category := "Food"; m_subcategory := "Grocery"; m_tags := ["Food"%string];
       m_payments := [ {| p_year := 2025; p_month := 1; p_day := 3; p_amount := 10 |};
                       {| p_year := 2025; p_month := 1; p_day := 20; p_amount := 20 |};
                       {| p_year := 2025; p_month := 3; p_day := 1; p_amount := 90 |} ] |};
    {| m_name := "Bolt"; m_category := "Bills"; m_subcategory := "Rent"; m_tags := [];
       m_payments := [ {| p_year := 2025; p_month := 1; p_day := 1; p_amount := 50 |};
                       {| p_year := 2025; p_month := 2; p_day := 1; p_amount := 50 |} ] |};
    {| m_name := "Pay"; m_category := "Income"; m_subcategory := ""; m_tags := ["INCOME"%string];
       m_payments := [ {| p_year := 2025; p_month := 2; p_day := 1; p_amount := 5000 |} ] |} ]%string.

Definition ex_cfg : config :=
  {| g_vars := [("steady", ECmp (EName "cv") [(CLt, EConst (CNum (3 # 10)))])]%string;
     g_views := [ {| v_name := "Steady"; v_vars := []; v_filter := EBoolOp true [EName "steady"; ECmp (EName "months") [(CGe, EConst (CNum 2))]] |};
                  {| v_name := "Lumpy"; v_vars := []; v_filter := ECmp (EName "cv") [(CGe, EConst (CNum (3 # 10)))] |};
                  {| v_name := "Peak"; v_vars := [("peak", ECall (Some "max") [ECall (Some "sum") [ECall (Some "by") [EConst (CStr "month")]]])];
                     v_filter := ECmp (EName "peak") [(CGt, EConst (CNum 60))] |};
                  {| v_name := "Broken"; v_vars := []; v_filter := ECmp (EName "category") [(CGt, EConst (CNum 5))] |};
                  {| v_name := "All"; v_vars := []; v_filter := EConst (CBool true) |} ]%string |}.

(* cv is decided symbolically (Acme: cv^2 = 1/4 >= 0.09; Bolt: 0), the ill-typed view is empty, the
   income merchant is nowhere, totals add up *)
Example c10_example :
  option_map (map (fun e => (fst e, map m_name (snd e), sumQ (map m_total (snd e)))))
             (classify_by_sections ex_cfg ex_ms (fun _ => true) (fun _ _ => OFalse))
  = Some [("Steady", ["Bolt"], 100); ("Lumpy", ["Acme"], 120); ("Peak", ["Acme"], 120);
          ("Broken", [], 0); ("All", ["Acme"; "Bolt"], 220)]%string.
Proof. vm_compute. reflexivity. Qed.

Example c10_example_cv :
  map (fun m => get_cv (mctx ex_ms m)) ex_ms = [Val (VRoot false (1 # 4)); Val (VNum 0 true); Val (VNum 0 true)].
Proof. vm_compute. reflexivity. Qed.
