(* C10/Proofs.v — part 1: the membership loop [classify], for EVERY filter evaluator.
   (Part 2, the characterisation of the modelled view evaluator, is C10/EvalProofs.v.) *)
From Coq Require Import String List Bool ZArith QArith Lia.
From Tally Require Import Lib.Str C10.Model.
Import ListNotations.

Lemma eqb_sym' (a b : string) : String.eqb a b = String.eqb b a.
Proof. destruct (String.eqb_spec a b) as [->|H]; [now rewrite String.eqb_refl|]. destruct (String.eqb_spec b a); congruence. Qed.

(* ---- sumQ (left fold) ---------------------------------------------------------------------- *)
Lemma fold_plus_acc (l : list Q) : forall a, fold_left Qplus l a == a + fold_left Qplus l 0.
Proof.
  induction l as [|x l IH]; intros a; simpl.
  - ring.
  - rewrite IH. rewrite (IH (0 + x)). ring.
Qed.
Lemma sumQ_cons x l : sumQ (x :: l) == x + sumQ l.
Proof. unfold sumQ; simpl. rewrite fold_plus_acc. ring. Qed.
Lemma sumQ_app a b : sumQ (a ++ b) == sumQ a + sumQ b.
Proof.
  induction a as [|x a IH]; simpl.
  - unfold sumQ at 2; simpl. ring.
  - rewrite !sumQ_cons, IH. ring.
Qed.

Section ClassifyProofs.
  Context {M V : Type}.
  Variable excl : M -> bool.
  Variable vname : V -> string.
  Variable globals_ok : M -> bool.
  Variable filter_true : V -> M -> outcome.
  Variable mtotal : M -> Q.

  Notation classify := (classify excl vname globals_ok filter_true).
  Notation step_view := (step_view vname filter_true).
  Notation step_merchant := (step_merchant vname globals_ok filter_true).
  Notation groups := (groups excl).
  Notation init := (init vname).
  Notation view_total := (view_total mtotal).

  (* declarative description *)
  Definition hit (n : string) (m : M) (v : V) : list M :=
    if (String.eqb (vname v) n && is_true (filter_true v m))%bool then [m] else [].
  Definition hits (vs : list V) (n : string) (m : M) : list M := flat_map (hit n m) vs.
  Definition view_ok (m : M) (v : V) : bool := negb (is_crash (filter_true v m)).
  Definition merchant_ok (vs : list V) (m : M) : bool := (globals_ok m && forallb (view_ok m) vs)%bool.
  Definition all_ok (vs : list V) (ms : list M) : bool := forallb (merchant_ok vs) (groups ms).
  Definition named (vs : list V) (n : string) : bool := existsb (fun v => String.eqb n (vname v)) vs.
  (* the filter of view v holds of m and m is not excluded *)
  Definition selected (v : V) (m : M) : bool := (negb (excl m) && is_true (filter_true v m))%bool.

  (* -- append_to ------------------------------------------------------------------------- *)
  Lemma alookup_append_to n m (r : list (string * list M)) k :
    alookup k (append_to n m r)
    = if String.eqb k n then option_map (fun l => (l ++ [m])%list) (alookup k r) else alookup k r.
  Proof.
    induction r as [|[k' l] r IH]; simpl.
    - now destruct (String.eqb k n).
    - destruct (String.eqb n k') eqn:Hn; simpl.
      + apply String.eqb_eq in Hn. subst k'. destruct (String.eqb k n) eqn:Hk; reflexivity.
      + destruct (String.eqb k k') eqn:Hk.
        * apply String.eqb_eq in Hk. subst k'. rewrite (eqb_sym' k n), Hn. reflexivity.
        * exact IH.
  Qed.

  Lemma keys_append_to n m (r : list (string * list M)) : map fst (append_to n m r) = map fst r.
  Proof.
    induction r as [|[k' l] r IH]; simpl; [reflexivity|].
    destruct (String.eqb n k'); simpl; [reflexivity|now rewrite IH].
  Qed.

  (* -- inner loop ------------------------------------------------------------------------ *)
  Lemma fold_view_none m vs : fold_left (step_view m) vs None = None.
  Proof. induction vs; simpl; auto. Qed.

  Lemma inner_some m vs : forall r r',
    fold_left (step_view m) vs (Some r) = Some r' ->
    forallb (view_ok m) vs = true /\ map fst r' = map fst r /\
    forall n, alookup n r' = option_map (fun l => (l ++ hits vs n m)%list) (alookup n r).
  Proof.
    induction vs as [|v vs IH]; intros r r' H; simpl in H.
    - inversion H; subst. repeat split; auto. intros n. unfold hits; simpl.
      destruct (alookup n r'); simpl; [now rewrite app_nil_r|reflexivity].
    - unfold hits, view_ok. simpl. unfold hit at 1.
      destruct (filter_true v m) eqn:E; simpl.
      + apply IH in H. destruct H as (A & B & C). split; [exact A|]. split; [now rewrite B, keys_append_to|].
        intros n. rewrite C, alookup_append_to. rewrite (eqb_sym' (vname v) n).
        destruct (String.eqb n (vname v)); simpl; [|reflexivity].
        destruct (alookup n r); simpl; [now rewrite <- app_assoc|reflexivity].
      + apply IH in H. destruct H as (A & B & C). repeat split; auto.
        intros n. rewrite C. now rewrite andb_false_r.
      + apply IH in H. destruct H as (A & B & C). repeat split; auto.
        intros n. rewrite C. now rewrite andb_false_r.
      + rewrite fold_view_none in H. discriminate.
  Qed.

  Lemma inner_ok m vs : forall r, forallb (view_ok m) vs = true -> exists r', fold_left (step_view m) vs (Some r) = Some r'.
  Proof.
    induction vs as [|v vs IH]; intros r H; simpl in *; [eauto|].
    apply andb_true_iff in H. destruct H as [A B]. unfold view_ok in A.
    destruct (filter_true v m); simpl in *; try discriminate; now apply IH.
  Qed.

  (* -- outer loop ------------------------------------------------------------------------ *)
  Lemma fold_merchant_none vs gs : fold_left (step_merchant vs) gs None = None.
  Proof. induction gs; simpl; auto. Qed.

  Lemma outer_some vs gs : forall r r',
    fold_left (step_merchant vs) gs (Some r) = Some r' ->
    forallb (merchant_ok vs) gs = true /\ map fst r' = map fst r /\
    forall n, alookup n r' = option_map (fun l => (l ++ flat_map (hits vs n) gs)%list) (alookup n r).
  Proof.
    induction gs as [|m gs IH]; intros r r' H; simpl in H.
    - inversion H; subst. repeat split; auto. intros n; simpl.
      destruct (alookup n r'); simpl; [now rewrite app_nil_r|reflexivity].
    - unfold merchant_ok at 1. simpl. destruct (globals_ok m) eqn:G; simpl.
      + destruct (fold_left (step_view m) vs (Some r)) as [r1|] eqn:E1.
        * apply inner_some in E1. destruct E1 as (A1 & B1 & C1).
          apply IH in H. destruct H as (A & B & C).
          split; [now rewrite A1|]. split; [congruence|].
          intros n. rewrite C, C1. destruct (alookup n r); simpl; [now rewrite <- app_assoc|reflexivity].
        * rewrite fold_merchant_none in H. discriminate.
      + rewrite fold_merchant_none in H. discriminate.
  Qed.

  Lemma outer_ok vs gs : forall r, forallb (merchant_ok vs) gs = true ->
    exists r', fold_left (step_merchant vs) gs (Some r) = Some r'.
  Proof.
    induction gs as [|m gs IH]; intros r H; simpl in *; [eauto|].
    apply andb_true_iff in H. destruct H as [A B]. unfold merchant_ok in A.
    apply andb_true_iff in A. destruct A as [A1 A2]. rewrite A1.
    destruct (inner_ok m vs r A2) as [r1 E]. rewrite E. now apply IH.
  Qed.

  (* -- init ------------------------------------------------------------------------------ *)
  Lemma has_key_app (a b : list (string * list M)) k : has_key k (a ++ b) = (has_key k a || has_key k b)%bool.
  Proof. induction a as [|[k' l] a IH]; simpl; [reflexivity|]. destruct (String.eqb k k'); auto. Qed.
  Lemma alookup_app (a b : list (string * list M)) k :
    alookup k (a ++ b) = match alookup k a with Some l => Some l | None => alookup k b end.
  Proof. induction a as [|[k' l] a IH]; simpl; [reflexivity|]. destruct (String.eqb k k'); auto. Qed.
  Lemma has_key_alookup (a : list (string * list M)) k : has_key k a = match alookup k a with Some _ => true | None => false end.
  Proof. induction a as [|[k' l] a IH]; simpl; [reflexivity|]. destruct (String.eqb k k'); auto. Qed.

  Lemma alookup_init vs : forall (acc : list (string * list M)) n,
    alookup n (init vs acc) =
    match alookup n acc with Some l => Some l | None => if named vs n then Some [] else None end.
  Proof.
    induction vs as [|v vs IH]; intros acc n; simpl.
    - now destruct (alookup n acc).
    - rewrite IH. destruct (has_key (vname v) acc) eqn:K.
      + destruct (alookup n acc) eqn:E; [reflexivity|].
        destruct (String.eqb_spec n (vname v)) as [->|]; simpl; [|reflexivity].
        rewrite has_key_alookup, E in K. discriminate.
      + rewrite alookup_app. destruct (alookup n acc); [reflexivity|]. simpl.
        destruct (String.eqb n (vname v)); simpl; [reflexivity|reflexivity].
  Qed.

  (* -- the loop computes the declarative description -------------------------------------- *)
  Lemma classify_some vs ms r :
    classify vs ms = Some r ->
    all_ok vs ms = true /\
    forall n, alookup n r = if named vs n then Some (flat_map (hits vs n) (groups ms)) else None.
  Proof.
    unfold classify. intros H. apply outer_some in H. destruct H as (A & _ & C).
    split; [exact A|]. intros n. rewrite C, alookup_init. simpl. now destruct (named vs n).
  Qed.

  Lemma classify_total vs ms : all_ok vs ms = true -> exists r, classify vs ms = Some r.
  Proof. intros H. now apply outer_ok. Qed.

  Lemma classify_none vs ms : classify vs ms = None <-> all_ok vs ms = false.
  Proof.
    split; intros H.
    - destruct (all_ok vs ms) eqn:E; [|reflexivity]. destruct (classify_total vs ms E) as [r Hr]. congruence.
    - destruct (classify vs ms) as [r|] eqn:E; [|reflexivity]. apply classify_some in E. destruct E; congruence.
  Qed.

  (* -- unique names ---------------------------------------------------------------------- *)
  Lemma hits_not_named vs n m : ~ In n (map vname vs) -> hits vs n m = [].
  Proof.
    induction vs as [|v vs IH]; intros H; [reflexivity|]. unfold hits; simpl. unfold hit at 1.
    destruct (String.eqb_spec (vname v) n) as [E|E]; [exfalso; apply H; left; exact E|]. simpl.
    apply IH. intros X; apply H; now right.
  Qed.

  Lemma hits_unique vs v m : NoDup (map vname vs) -> In v vs ->
    hits vs (vname v) m = if is_true (filter_true v m) then [m] else [].
  Proof.
    induction vs as [|v0 vs IH]; intros ND HI; [contradiction|].
    simpl in ND. inversion ND as [|x l Hnot ND']; subst. unfold hits; simpl. unfold hit at 1.
    destruct HI as [->|HI].
    - rewrite String.eqb_refl; simpl. fold (hits vs (vname v) m). rewrite (hits_not_named vs _ m Hnot).
      now rewrite app_nil_r.
    - destruct (String.eqb_spec (vname v0) (vname v)) as [E|E].
      + exfalso. apply Hnot. rewrite E. now apply in_map.
      + simpl. now apply IH.
  Qed.

  Lemma named_in vs v : In v vs -> named vs (vname v) = true.
  Proof. intros H. apply existsb_exists. exists v. split; [exact H|apply String.eqb_refl]. Qed.

  Lemma flat_map_filter {A} (p : A -> bool) (l : list A) : flat_map (fun x => if p x then [x] else []) l = filter p l.
  Proof. induction l as [|x l IH]; simpl; [reflexivity|]. rewrite IH. now destruct (p x). Qed.
  Lemma filter_filter {A} (p q : A -> bool) (l : list A) : filter p (filter q l) = filter (fun x => (q x && p x)%bool) l.
  Proof. induction l as [|x l IH]; simpl; [reflexivity|]. destruct (q x); simpl; [destruct (p x)|]; now rewrite IH. Qed.

  (* THE membership theorem: with distinct view names, a completed run lists in view v exactly the
     non-excluded merchants whose filter is true, once each, in merchant order *)
  Theorem membership_list vs ms r v :
    NoDup (map vname vs) -> In v vs -> classify vs ms = Some r ->
    members r (vname v) = filter (selected v) ms.
  Proof.
    intros ND HI H. apply classify_some in H. destruct H as [_ C].
    unfold members. rewrite C, (named_in vs v HI).
    erewrite flat_map_ext; [|intros m; apply (hits_unique vs v m ND HI)].
    rewrite flat_map_filter. unfold groups. rewrite filter_filter. reflexivity.
  Qed.

  Theorem membership_iff vs ms r v m :
    NoDup (map vname vs) -> In v vs -> classify vs ms = Some r ->
    (In m (members r (vname v)) <-> In m ms /\ excl m = false /\ filter_true v m = OTrue).
  Proof.
    intros ND HI H. rewrite (membership_list vs ms r v ND HI H), filter_In. unfold selected.
    rewrite andb_true_iff, negb_true_iff. split; intros (A & B & C); repeat split; auto.
    - now destruct (filter_true v m).
    - now rewrite C.
  Qed.

  (* an ExpressionError keeps the merchant out and does not stop the run *)
  Theorem error_excludes vs ms r v m :
    NoDup (map vname vs) -> In v vs -> classify vs ms = Some r ->
    filter_true v m = OExprError -> ~ In m (members r (vname v)).
  Proof.
    intros ND HI H E X. apply (membership_iff vs ms r v m ND HI H) in X. destruct X as (_ & _ & X). congruence.
  Qed.

  Theorem run_completes vs ms :
    (forall m, In m ms -> excl m = false -> globals_ok m = true) ->
    (forall m v, In m ms -> excl m = false -> In v vs -> filter_true v m <> OCrash) ->
    exists r, classify vs ms = Some r.
  Proof.
    intros G F. apply classify_total. unfold all_ok. apply forallb_forall. intros m Hm.
    unfold groups in Hm. apply filter_In in Hm. destruct Hm as [Hm He]. apply negb_true_iff in He.
    unfold merchant_ok. rewrite (G m Hm He). simpl. apply forallb_forall. intros v Hv.
    unfold view_ok. specialize (F m v Hm He Hv). now destruct (filter_true v m).
  Qed.

  (* a crash anywhere aborts the whole run *)
  Theorem crash_aborts vs ms v m :
    In m ms -> excl m = false -> In v vs -> filter_true v m = OCrash -> classify vs ms = None.
  Proof.
    intros Hm He Hv E. apply classify_none. unfold all_ok.
    destruct (forallb (merchant_ok vs) (groups ms)) eqn:F; [|reflexivity].
    rewrite forallb_forall in F. assert (Hg : In m (groups ms)).
    { unfold groups. apply filter_In. split; [exact Hm|now rewrite He]. }
    specialize (F m Hg). unfold merchant_ok in F. apply andb_true_iff in F. destruct F as [_ F].
    rewrite forallb_forall in F. specialize (F v Hv). unfold view_ok in F. rewrite E in F. discriminate.
  Qed.

  (* independence: the member list of v is the same under any two completed runs whose view lists
     both contain v (adding, removing, reordering other views) *)
  Theorem views_independent vs1 vs2 ms r1 r2 v :
    NoDup (map vname vs1) -> NoDup (map vname vs2) -> In v vs1 -> In v vs2 ->
    classify vs1 ms = Some r1 -> classify vs2 ms = Some r2 ->
    members r1 (vname v) = members r2 (vname v).
  Proof.
    intros N1 N2 I1 I2 H1 H2.
    now rewrite (membership_list vs1 ms r1 v N1 I1 H1), (membership_list vs2 ms r2 v N2 I2 H2).
  Qed.

  Lemma sumQ_map_filter_ext (f : M -> Q) (p : M -> bool) (l : list M) :
    sumQ (map f (filter p l)) == sumQ (map (fun m => if p m then f m else 0) l).
  Proof.
    induction l as [|x l IH]; simpl; [reflexivity|].
    destruct (p x); simpl; rewrite !sumQ_cons, IH; ring.
  Qed.

  (* each view's total is the sum of its members' totals = the sum over the selected merchants *)
  Theorem view_total_is_sum vs ms r v :
    NoDup (map vname vs) -> In v vs -> classify vs ms = Some r ->
    view_total r (vname v) = sumQ (map mtotal (members r (vname v))) /\
    view_total r (vname v) == sumQ (map (fun m => if selected v m then mtotal m else 0) ms) /\
    view_count r (vname v) = length (filter (selected v) ms).
  Proof.
    intros ND HI H. split; [reflexivity|]. unfold view_total, view_count.
    rewrite (membership_list vs ms r v ND HI H). split; [apply sumQ_map_filter_ext|reflexivity].
  Qed.

  (* without the name-uniqueness guard: what a view's list is in general *)
  Theorem members_general vs ms r n :
    classify vs ms = Some r ->
    members r n = if named vs n then flat_map (hits vs n) (groups ms) else [].
  Proof.
    intros H. apply classify_some in H. destruct H as [_ C]. unfold members. rewrite C. now destruct (named vs n).
  Qed.
End ClassifyProofs.
