(* C10/EvalProofs.v — part 2: what the modelled view evaluator's primitives compute
   (months, total, cv, by) in terms of the payments, and what classify_by_sections' date
   rebuilding preserves. *)
From Coq Require Import String List Bool ZArith QArith Qabs Lia Permutation Sorted.
From Tally Require Import Lib.Str C10.Model C10.Proofs C10.ViewEval.
Import ListNotations.
Open Scope Q_scope.

(* ---- sums ------------------------------------------------------------------------------------ *)
Lemma sumQ_nil : sumQ [] == 0.
Proof. reflexivity. Qed.

Lemma sumQ_perm (a b : list Q) : Permutation a b -> sumQ a == sumQ b.
Proof.
  induction 1.
  - reflexivity.
  - rewrite !sumQ_cons, IHPermutation. reflexivity.
  - rewrite !sumQ_cons. ring.
  - now rewrite IHPermutation1.
Qed.

Lemma sumQ_map_ext {A} (f g : A -> Q) (l : list A) :
  (forall x, In x l -> f x == g x) -> sumQ (map f l) == sumQ (map g l).
Proof.
  induction l as [|x l IH]; intros H; simpl; [reflexivity|].
  assert (E1 : sumQ (map f l) == sumQ (map g l)) by (apply IH; intros y Hy; apply H; now right).
  assert (E2 : f x == g x) by (apply H; now left).
  rewrite !sumQ_cons, E1, E2. reflexivity.
Qed.

Lemma fold_add_map {A} (f : A -> Q) (l : list A) : forall a,
  fold_left (fun acc x => acc + f x) l a == a + sumQ (map f l).
Proof.
  induction l as [|x l IH]; intros a; simpl.
  - rewrite sumQ_nil. ring.
  - rewrite IH, sumQ_cons. ring.
Qed.

Lemma q_sum_acc (l : list (Q * bool)) : forall acc,
  fst (fold_left (fun acc x => let s := Qred (fst acc + fst x) in (s, (snd acc && snd x && fits s)%bool)) l acc)
  == fst acc + sumQ (map fst l).
Proof.
  induction l as [|x l IH]; intros acc; cbn [fold_left map].
  - rewrite sumQ_nil. ring.
  - rewrite IH. cbv beta zeta. cbn [fst snd]. rewrite Qred_correct, sumQ_cons. ring.
Qed.

Lemma q_sum_spec (l : list (Q * bool)) : fst (q_sum l) == sumQ (map fst l).
Proof. unfold q_sum. rewrite q_sum_acc. simpl. ring. Qed.

(* ---- insertion-ordered grouping ---------------------------------------------------------- *)
Section Groups.
  Context {A : Type}.
  Variable key : payment -> Z.
  Variable val : payment -> A.

  Fixpoint glook (k : Z) (g : list (Z * list A)) : list A :=
    match g with [] => [] | (k', l) :: r => if (k =? k')%Z then l else glook k r end.

  Lemma glook_g_add k a g k' :
    glook k' (g_add k a g) = if (k' =? k)%Z then (glook k' g ++ [a])%list else glook k' g.
  Proof.
    induction g as [|[k0 l] r IH]; simpl.
    - now destruct (k' =? k)%Z.
    - destruct (Z.eqb_spec k k0) as [E|E]; simpl.
      + subst k0. destruct (k' =? k)%Z; reflexivity.
      + destruct (Z.eqb_spec k' k0) as [E2|E2].
        * subst k0. destruct (Z.eqb_spec k' k); [congruence|reflexivity].
        * exact IH.
  Qed.

  Lemma keys_g_add_in k (a : A) g k' : In k' (map fst (g_add k a g)) <-> k' = k \/ In k' (map fst g).
  Proof.
    induction g as [|[k0 l] r IH]; simpl.
    - intuition.
    - destruct (Z.eqb_spec k k0) as [E|E]; simpl.
      + subst. intuition.
      + rewrite IH. intuition.
  Qed.

  Lemma keys_g_add_nodup k (a : A) g : NoDup (map fst g) -> NoDup (map fst (g_add k a g)).
  Proof.
    induction g as [|[k0 l] r IH]; simpl; intros H.
    - constructor; [intros []|constructor].
    - inversion H as [|x xs Hn Hr]; subst. destruct (Z.eqb_spec k k0) as [E|E]; simpl.
      + constructor; assumption.
      + constructor; [|now apply IH]. intros X. apply keys_g_add_in in X. destruct X as [X|X]; [congruence|contradiction].
  Qed.

  Definition gfold (txns : list payment) (g : list (Z * list A)) :=
    fold_left (fun g p => g_add (key p) (val p) g) txns g.

  Lemma gfold_look txns : forall g k,
    glook k (gfold txns g) = (glook k g ++ map val (filter (fun p => (key p =? k)%Z) txns))%list.
  Proof.
    induction txns as [|p txns IH]; intros g k; simpl.
    - now rewrite app_nil_r.
    - unfold gfold in *. simpl. rewrite IH, glook_g_add. rewrite (Z.eqb_sym k (key p)).
      destruct (key p =? k)%Z; simpl; [now rewrite <- app_assoc|reflexivity].
  Qed.

  Lemma gfold_keys_in txns : forall g k,
    In k (map fst (gfold txns g)) <-> In k (map fst g) \/ exists p, In p txns /\ key p = k.
  Proof.
    induction txns as [|p txns IH]; intros g k; simpl.
    - split; [auto|]. intros [H|[p [[] _]]]. exact H.
    - unfold gfold in *. simpl. rewrite IH, keys_g_add_in. split.
      + intros [[E|H]|[q [Hq E]]]; [right; exists p; auto|left; auto|right; exists q; auto].
      + intros [H|[q [[E|Hq] E2]]]; [left; right; exact H|subst; left; left; reflexivity|right; exists q; auto].
  Qed.

  Lemma gfold_nodup txns : forall g, NoDup (map fst g) -> NoDup (map fst (gfold txns g)).
  Proof.
    induction txns as [|p txns IH]; intros g H; simpl; [exact H|].
    unfold gfold in *. simpl. apply IH. now apply keys_g_add_nodup.
  Qed.

  Lemma glook_entry (g : list (Z * list A)) k l : NoDup (map fst g) -> In (k, l) g -> glook k g = l.
  Proof.
    induction g as [|[k0 l0] r IH]; simpl; intros ND H; [contradiction|].
    inversion ND as [|x xs Hn Hr]; subst. destruct H as [H|H].
    - inversion H; subst. now rewrite Z.eqb_refl.
    - destruct (Z.eqb_spec k k0) as [E|E]; [|now apply IH].
      subst k0. exfalso. apply Hn. change k with (fst (k, l)). now apply in_map.
  Qed.

  Lemma group_by_keys txns k :
    In k (map fst (group_by key val txns)) <-> exists p, In p txns /\ key p = k.
  Proof.
    change (group_by key val txns) with (gfold txns []). rewrite gfold_keys_in. simpl. intuition.
  Qed.
  Lemma group_by_nodup txns : NoDup (map fst (group_by key val txns)).
  Proof. change (group_by key val txns) with (gfold txns []). apply gfold_nodup. constructor. Qed.
  Lemma group_by_entry txns k l :
    In (k, l) (group_by key val txns) -> l = map val (filter (fun p => (key p =? k)%Z) txns).
  Proof.
    intros H. rewrite <- (glook_entry _ k l (group_by_nodup txns) H).
    change (group_by key val txns) with (gfold txns []). now rewrite gfold_look.
  Qed.
End Groups.

Lemma group_by_map {A} (key : payment -> Z) (val : payment -> A) (h : payment -> payment) txns :
  group_by key val (map h txns) = group_by (fun p => key (h p)) (fun p => val (h p)) txns.
Proof.
  unfold group_by. generalize (@nil (Z * list A)). induction txns as [|p txns IH]; intros g; simpl; [reflexivity|apply IH].
Qed.

Lemma group_by_ext {A} (key key' : payment -> Z) (val val' : payment -> A) txns :
  (forall p, key p = key' p) -> (forall p, val p = val' p) -> group_by key val txns = group_by key' val' txns.
Proof.
  intros Hk Hv. unfold group_by. generalize (@nil (Z * list A)).
  induction txns as [|p txns IH]; intros g; simpl; [reflexivity|]. rewrite Hk, Hv. apply IH.
Qed.

(* the keys of a grouping do not depend on what is collected *)
Lemma group_by_keys_val {A B} (key : payment -> Z) (v1 : payment -> A) (v2 : payment -> B) txns :
  map fst (group_by key v1 txns) = map fst (group_by key v2 txns).
Proof.
  unfold group_by.
  assert (H : forall (g1 : list (Z * list A)) (g2 : list (Z * list B)), map fst g1 = map fst g2 ->
            map fst (fold_left (fun g p => g_add (key p) (v1 p) g) txns g1) =
            map fst (fold_left (fun g p => g_add (key p) (v2 p) g) txns g2)).
  { induction txns as [|p txns IH]; intros g1 g2 E; simpl; [exact E|]. apply IH.
    clear IH. revert g2 E. induction g1 as [|[k l] r IH1]; intros [|[k2 l2] r2] E; simpl in *; try discriminate; [reflexivity|].
    inversion E; subst. destruct (key p =? k2)%Z; simpl; [now f_equal|]. f_equal. now apply IH1. }
  now apply H.
Qed.

(* ---- sorting by key ---------------------------------------------------------------------- *)
Section Sorting.
  Context {A : Type}.
  Definition le_key (a b : Z * A) : Prop := (fst a <= fst b)%Z.

  Lemma k_insert_perm (e : Z * A) l : Permutation (k_insert e l) (e :: l).
  Proof.
    induction l as [|x l IH]; simpl; [reflexivity|].
    destruct (fst e <=? fst x)%Z; [reflexivity|]. rewrite IH. apply perm_swap.
  Qed.
  Lemma sort_keys_perm (l : list (Z * A)) : Permutation (sort_keys l) l.
  Proof.
    induction l as [|x l IH]; simpl; [reflexivity|]. unfold sort_keys in *. simpl. rewrite k_insert_perm. now constructor.
  Qed.

  Lemma k_insert_sorted (e : Z * A) l : Sorted le_key l -> Sorted le_key (k_insert e l).
  Proof.
    induction l as [|x l IH]; intros HS; simpl.
    - constructor; constructor.
    - destruct (Z.leb_spec (fst e) (fst x)) as [E|E].
      + constructor; [exact HS|]. constructor. exact E.
      + inversion HS as [|? ? HS' HR]; subst. constructor; [now apply IH|].
        destruct l as [|y l]; simpl.
        * constructor. unfold le_key. lia.
        * destruct (Z.leb_spec (fst e) (fst y)); constructor.
          -- unfold le_key. lia.
          -- inversion HR; assumption.
  Qed.
  Lemma sort_keys_sorted (l : list (Z * A)) : Sorted le_key (sort_keys l).
  Proof.
    induction l as [|x l IH]; simpl; [constructor|]. unfold sort_keys in *. simpl. now apply k_insert_sorted.
  Qed.

  Lemma sorted_strict (l : list (Z * A)) :
    Sorted le_key l -> NoDup (map fst l) -> StronglySorted Z.lt (map fst l).
  Proof.
    intros HS ND. apply Sorted_StronglySorted in HS; [|intros a b c; unfold le_key; lia].
    induction HS as [|a l HS IH HF]; simpl; [constructor|].
    inversion ND as [|x xs Hn Hr]; subst. constructor; [now apply IH|].
    apply Forall_forall. intros k Hk. apply in_map_iff in Hk. destruct Hk as [b [Eb Hb]].
    rewrite Forall_forall in HF. specialize (HF b Hb). unfold le_key in HF.
    assert (fst a <> k) by (intros X; apply Hn; rewrite X; apply in_map_iff; exists b; auto). lia.
  Qed.
End Sorting.

(* ---- the primitives ---------------------------------------------------------------------- *)
Definition has_key_p (key : payment -> Z) (txns : list payment) (k : Z) : Prop := exists p, In p txns /\ key p = k.

Lemma same_card (l1 l2 : list Z) : NoDup l1 -> NoDup l2 -> (forall k, In k l1 <-> In k l2) -> length l1 = length l2.
Proof. intros N1 N2 H. apply Permutation_length. now apply NoDup_Permutation. Qed.

(* months = number of distinct '%Y-%m' among the payments (1 when there are none) *)
Theorem months_spec (c : ctx) (ks : list Z) :
  NoDup ks -> (forall k, In k ks <-> has_key_p month_key (c_txns c) k) ->
  get_months c = VNum (inject_Z (Z.of_nat (Nat.max 1 (length ks)))) true.
Proof.
  intros ND H. unfold get_months.
  rewrite <- (map_length fst (group_by month_key (fun _ => tt) (c_txns c))).
  rewrite (same_card _ ks (group_by_nodup _ _ _) ND).
  - destruct (length ks); reflexivity.
  - intros k. rewrite group_by_keys. symmetry. apply H.
Qed.

(* total = the sum of the payments, in whatever order *)
Theorem total_spec (c : ctx) :
  exists s e, get_total c = VNum s e /\ s == sumQ (map p_amount (c_txns c)) /\
              forall l, Permutation l (map p_amount (c_txns c)) -> s == sumQ l.
Proof.
  unfold get_total. destruct (q_sum _) as [s e] eqn:E. exists s, e. split; [reflexivity|].
  assert (S : s == sumQ (map p_amount (c_txns c))).
  { change s with (fst (s, e)). rewrite <- E, q_sum_spec, map_map. reflexivity. }
  split; [exact S|]. intros l P. rewrite S. symmetry. now apply sumQ_perm.
Qed.

(* by(field): one group per distinct key, groups in increasing key order, each group = that key's
   payments in their original order *)
Theorem by_spec (c : ctx) (f : field) :
  exists ks, StronglySorted Z.lt ks /\ (forall k, In k ks <-> has_key_p (key_of f) (c_txns c) k) /\
    get_by c f = VList (map (fun k => VList (map pay_val (filter (fun p => (key_of f p =? k)%Z) (c_txns c)))) ks).
Proof.
  set (G := group_by (key_of f) pay_val (c_txns c)).
  exists (map fst (sort_keys G)).
  assert (P : Permutation (sort_keys G) G) by apply sort_keys_perm.
  split; [|split].
  - apply sorted_strict; [apply sort_keys_sorted|].
    apply (Permutation_NoDup (l := map fst G)); [apply Permutation_map; now symmetry|apply group_by_nodup].
  - intros k. unfold has_key_p. rewrite <- (group_by_keys (key_of f) pay_val). fold G.
    split; intros H; eapply Permutation_in; try exact H; apply Permutation_map; [exact P|now symmetry].
  - unfold get_by. fold G. f_equal. rewrite map_map. apply map_ext_in. intros [k l] H. simpl. f_equal.
    apply (group_by_entry (key_of f) pay_val (c_txns c)). fold G. eapply Permutation_in; [exact P|exact H].
Qed.

(* cv: population coefficient of variation of the monthly totals *)
Definition month_total (txns : list payment) (k : Z) : Q :=
  sumQ (map p_amount (filter (fun p => (month_key p =? k)%Z) txns)).
Definition mean_of (txns : list payment) (ks : list Z) : Q :=
  sumQ (map (month_total txns) ks) / inject_Z (Z.of_nat (length ks)).
Definition popvar_of (txns : list payment) (ks : list Z) : Q :=
  sumQ (map (fun k => qsq (month_total txns k - mean_of txns ks)) ks) / inject_Z (Z.of_nat (length ks)).
Definition month_keys (txns : list payment) : list Z := map fst (group_by month_key (fun _ => tt) txns).

Lemma month_keys_spec txns : NoDup (month_keys txns) /\ forall k, In k (month_keys txns) <-> has_key_p month_key txns k.
Proof. split; [apply group_by_nodup|intros k; apply group_by_keys]. Qed.

(* mean and variance do not depend on the order in which the months are enumerated *)
Lemma mean_perm txns ks ks' : Permutation ks ks' -> mean_of txns ks == mean_of txns ks'.
Proof.
  intros P. unfold mean_of. rewrite (Permutation_length P).
  rewrite (sumQ_perm _ _ (Permutation_map (month_total txns) P)). reflexivity.
Qed.
Lemma popvar_perm txns ks ks' : Permutation ks ks' -> popvar_of txns ks == popvar_of txns ks'.
Proof.
  intros P. unfold popvar_of. rewrite (Permutation_length P).
  rewrite (sumQ_perm _ _ (Permutation_map (fun k => qsq (month_total txns k - mean_of txns ks)) P)).
  rewrite (sumQ_map_ext (fun k => qsq (month_total txns k - mean_of txns ks)) (fun k => qsq (month_total txns k - mean_of txns ks')) ks').
  - reflexivity.
  - intros k _. unfold qsq. rewrite (mean_perm txns ks ks' P). reflexivity.
Qed.

Lemma monthly_totals_spec txns :
  map fst (monthly_totals txns) = map (fun g => fst (q_sum (snd g))) (group_by month_key (fun p => (p_amount p, amount_exact p)) txns) /\
  length (monthly_totals txns) = length (month_keys txns).
Proof.
  unfold monthly_totals, month_keys. rewrite map_map, !map_length. split; [reflexivity|].
  rewrite <- (map_length fst), <- (map_length fst (group_by month_key (fun _ => tt) txns)).
  now rewrite (group_by_keys_val month_key (fun p => (p_amount p, amount_exact p)) (fun _ => tt)).
Qed.

Lemma monthly_sum txns (f : Q -> Q) :
  (forall a b, a == b -> f a == f b) ->
  sumQ (map (fun x => f (fst x)) (monthly_totals txns)) == sumQ (map (fun k => f (month_total txns k)) (month_keys txns)).
Proof.
  intros Hf. unfold monthly_totals, month_keys.
  rewrite (group_by_keys_val month_key (fun _ => tt) (fun p => (p_amount p, amount_exact p))).
  rewrite !map_map. apply sumQ_map_ext. intros [k l] H. simpl. apply Hf.
  rewrite q_sum_spec. rewrite (group_by_entry month_key _ txns k l H), map_map. reflexivity.
Qed.

Lemma qlt_compat a b : a == b -> is_neg a = is_neg b.
Proof.
  intros E. unfold is_neg, qlt. simpl. rewrite !Z.mul_1_r.
  assert (X : forall q, (Qnum q <? 0)%Z = (Qnum q * 1 <? 0 * QDen q)%Z) by (intros; now rewrite Z.mul_1_r).
  unfold Qeq in E. destruct (Z.ltb_spec (Qnum a) 0), (Z.ltb_spec (Qnum b) 0); try reflexivity; exfalso; nia.
Qed.

Lemma qeq_true a b : qeq a b = true <-> a == b.
Proof. unfold qeq, Qeq. apply Z.eqb_eq. Qed.

Lemma qsq_compat a b : a == b -> qsq a == qsq b.
Proof. intros E. unfold qsq. now rewrite E. Qed.

Lemma qle_iff x y : qle x y = true <-> x <= y.
Proof. unfold qle, Qle. apply Z.leb_le. Qed.
Lemma qlt_iff x y : qlt x y = true <-> x < y.
Proof. unfold qlt, Qlt. apply Z.ltb_lt. Qed.
Lemma qmax_ge1 z : 1 <= qmax 1 z.
Proof. unfold qmax. destruct (qlt 1 z) eqn:E; [apply qlt_iff in E; now apply Qlt_le_weak|apply Qle_refl]. Qed.
Lemma near_zero a : a == 0 -> near a 0 = true.
Proof.
  intros H. unfold near. apply qle_iff.
  assert (E : Qabs (a - 0) == 0) by (rewrite H; reflexivity).
  rewrite E. apply Qmult_le_0_compat; [unfold eps, Qle; simpl; lia|].
  eapply Qle_trans; [|apply qmax_ge1]. unfold Qle; simpl; lia.
Qed.

Theorem cv_spec (c : ctx) (v : value) :
  get_cv c = Val v ->
  let txns := c_txns c in
  let ks := month_keys txns in
  let mean := mean_of txns ks in
  let var := popvar_of txns ks in
  ((length ks < 2)%nat -> v = VNum 0 true) /\
  ((2 <= length ks)%nat -> mean == 0 -> v = VNum 0 true) /\
  ((2 <= length ks)%nat -> ~ mean == 0 ->
     (v = VNum 0 true /\ var == 0) \/ (exists q, v = VRoot (is_neg mean) q /\ q == var / qsq mean)).
Proof.
  intros H txns ks mean var. unfold get_cv in H. fold txns in H.
  destruct (monthly_totals_spec txns) as [_ L]. fold ks in L.
  destruct (Nat.ltb_spec (length (monthly_totals txns)) 2) as [Hn|Hn].
  - inversion H; subst. rewrite L in Hn. repeat split; intros; try reflexivity; lia.
  - rewrite L in Hn. destruct (q_sum (monthly_totals txns)) as [s es] eqn:ES.
    set (nq := inject_Z (Z.of_nat (length (monthly_totals txns)))) in *.
    assert (S : s == sumQ (map (month_total txns) ks)).
    { change s with (fst (s, es)). rewrite <- ES, q_sum_spec.
      rewrite <- (map_map fst (fun x => x)), map_id. apply (monthly_sum txns (fun x => x)). auto. }
    assert (NQ : nq == inject_Z (Z.of_nat (length ks))) by (unfold nq; now rewrite L).
    assert (NZ : ~ nq == 0).
    { rewrite NQ. intros X. unfold Qeq in X. simpl in X. lia. }
    assert (AVG : s / nq == mean) by (unfold mean, mean_of; fold ks; now rewrite S, NQ).
    split; [intros; lia|].
    destruct (es && qeq s 0)%bool eqn:Z0.
    + inversion H; subst. apply andb_true_iff in Z0. destruct Z0 as [_ Z0]. apply qeq_true in Z0.
      split; [reflexivity|]. intros _ NM. exfalso. apply NM. rewrite <- AVG, Z0. field. exact NZ.
    + destruct (near (s / nq) 0) eqn:NEAR; [discriminate|].
      set (ss := fold_left (fun a x => a + qsq (fst x - s / nq)) (monthly_totals txns) 0) in *.
      assert (SS : ss / nq == var).
      { unfold ss. rewrite fold_add_map. unfold var, popvar_of. fold ks. fold mean.
        assert (E : sumQ (map (fun x => qsq (fst x - s / nq)) (monthly_totals txns))
                    == sumQ (map (fun k => qsq (month_total txns k - s / nq)) ks)).
        { apply (monthly_sum txns (fun x => qsq (x - s / nq))). intros a b Eab. unfold qsq. now rewrite Eab. }
        assert (E2 : sumQ (map (fun k => qsq (month_total txns k - s / nq)) ks)
                     == sumQ (map (fun k => qsq (month_total txns k - mean)) ks)).
        { apply sumQ_map_ext. intros k _. apply qsq_compat. now rewrite AVG. }
        rewrite E, E2, NQ. field. rewrite <- NQ. exact NZ. }
      destruct (es && forallb snd (monthly_totals txns) && qeq (ss / nq) 0)%bool eqn:V0.
      * inversion H; subst. apply andb_true_iff in V0. destruct V0 as [_ V0]. apply qeq_true in V0.
        split; [intros _ M; reflexivity|]. intros _ _. left. split; [reflexivity|]. now rewrite <- SS.
      * inversion H; subst. split.
        -- intros _ M. exfalso.
           (* mean == 0 but the model did not take the zero branch: then near (s/nq) 0 would hold *)
           assert (X : near (s / nq) 0 = true) by (apply near_zero; now rewrite AVG).
           congruence.
        -- intros _ _. right. exists (Qred (ss / nq / qsq (s / nq))). split.
           ++ f_equal. apply qlt_compat. exact AVG.
           ++ rewrite Qred_correct, SS. unfold qsq. rewrite AVG. reflexivity.
Qed.

(* ---- what classify_by_sections' date rebuilding preserves ---------------------------------- *)
Lemma month_key_rebuild p : month_key (rebuild p) = month_key p.
Proof. reflexivity. Qed.
Lemma year_key_rebuild p : key_of FYear (rebuild p) = key_of FYear p.
Proof. reflexivity. Qed.
Lemma pay_val_rebuild p : pay_val (rebuild p) = pay_val p.
Proof. reflexivity. Qed.

Lemma filter_map_rebuild (key : payment -> Z) k ps :
  (forall p, key (rebuild p) = key p) ->
  map p_amount (filter (fun p => (key p =? k)%Z) (map rebuild ps)) = map p_amount (filter (fun p => (key p =? k)%Z) ps).
Proof.
  intros Hk. induction ps as [|p ps IH]; simpl; [reflexivity|]. rewrite Hk.
  destruct (key p =? k)%Z; simpl; now rewrite IH.
Qed.

Lemma has_key_rebuild (key : payment -> Z) ps k :
  (forall p, key (rebuild p) = key p) -> (has_key_p key (map rebuild ps) k <-> has_key_p key ps k).
Proof.
  intros Hk. unfold has_key_p. split.
  - intros [p [H E]]. apply in_map_iff in H. destruct H as [q [Eq Hq]]. subst p. exists q. now rewrite <- Hk.
  - intros [p [H E]]. exists (rebuild p). split; [now apply in_map|now rewrite Hk].
Qed.

Lemma map_rebuild ps : map rebuild ps = ps.
Proof. unfold rebuild. apply map_id. Qed.

(* the context a filter is evaluated in IS the merchant's own payments *)
Theorem ctx_of_own (pm py : Z) (m : merchant) : ctx_of pm py m = ctx_own pm py m.
Proof. unfold ctx_of, ctx_own. now rewrite map_rebuild. Qed.

(* ---- variables ---------------------------------------------------------------------------- *)
Lemma lookup_lowercase_var (vars : env) (c : ctx) (n : string) (v : value) :
  lower n = n -> alookup n vars = Some v -> eval vars c (EName n) = Val v.
Proof. intros L H. simpl. unfold lookup_name. rewrite L, H. reflexivity. Qed.

Lemma lower_char_idem ch : lower_char (lower_char ch) = lower_char ch.
Proof. destruct ch as [[] [] [] [] [] [] [] []]; vm_compute; reflexivity. Qed.
Lemma lower_idem s : lower (lower s) = lower s.
Proof. unfold lower. induction s as [|ch s IH]; simpl; [reflexivity|]. now rewrite lower_char_idem, IH. Qed.

Section DictFacts.
  Context {A : Type}.
  Lemma alookup_dset_same (d : list (string * A)) k v : alookup k (dset d k v) = Some v.
  Proof.
    induction d as [|[k' v'] r IH]; simpl; [now rewrite String.eqb_refl|].
    destruct (String.eqb k k') eqn:E; simpl; rewrite E; auto.
  Qed.
  Lemma alookup_dset_defined (d : list (string * A)) k v k2 :
    alookup k2 d <> None -> alookup k2 (dset d k v) <> None.
  Proof.
    induction d as [|[k' v'] r IH]; simpl; [congruence|].
    destruct (String.eqb k k') eqn:E; simpl.
    - destruct (String.eqb k2 k'); [discriminate|auto].
    - destruct (String.eqb k2 k'); [discriminate|auto].
  Qed.
End DictFacts.

(* every name defined in the file, in whatever letter case, has an entry under its lower-cased name *)
Lemma norm_defs_defined (raw : defs) n e : In (n, e) raw -> alookup (lower n) (norm_defs raw) <> None.
Proof.
  unfold norm_defs. generalize (@nil (string * expr)).
  assert (K : forall (l : defs) d, alookup (lower n) d <> None ->
              alookup (lower n) (fold_left (fun d ne => dset d (lower (fst ne)) (snd ne)) l d) <> None).
  { induction l as [|x l IH]; intros d H; simpl; [exact H|]. apply IH. now apply alookup_dset_defined. }
  induction raw as [|x raw IH]; intros d H; [contradiction|]. simpl. destruct H as [->|H].
  - apply K. simpl. rewrite alookup_dset_same. discriminate.
  - now apply IH.
Qed.

(* evaluate_variables gives every definition a value (None when its expression fails) *)
Lemma eval_vars_defined (ds : defs) (c : ctx) k : forall start env,
  eval_vars ds c start = Val env -> (alookup k ds <> None \/ alookup k start <> None) -> alookup k env <> None.
Proof.
  unfold eval_vars. induction ds as [|[n e] ds IH]; intros start env H D; simpl in *.
  - inversion H; subst. destruct D as [D|D]; [congruence|exact D].
  - destruct (evaluate start c e) as [v| | |r] eqn:E; simpl in H.
    + apply (IH _ _ H). destruct (String.eqb k n) eqn:K.
      * apply String.eqb_eq in K. subst. right. rewrite alookup_dset_same. discriminate.
      * destruct D as [D|D]; [left; exact D|right; now apply alookup_dset_defined].
    + apply (IH _ _ H). destruct (String.eqb k n) eqn:K.
      * apply String.eqb_eq in K. subst. right. rewrite alookup_dset_same. discriminate.
      * destruct D as [D|D]; [left; exact D|right; now apply alookup_dset_defined].
    + exfalso. revert H. clear. induction ds as [|x ds IH]; simpl; [discriminate|exact IH].
    + exfalso. revert H. clear. induction ds as [|x ds IH]; simpl; [discriminate|exact IH].
Qed.

(* a variable defined in the views file can be read back under any letter case of its name *)
Theorem variable_reachable (raw : defs) (c : ctx) (start env : env) n e n' :
  In (n, e) raw -> eval_vars (norm_defs raw) c start = Val env -> lower n' = lower n ->
  exists v, alookup (lower n) env = Some v /\ evaluate env c (EName n') = Val v.
Proof.
  intros HI HE HL.
  pose proof (eval_vars_defined (norm_defs raw) c (lower n) start env HE (or_introl (norm_defs_defined raw n e HI))) as D.
  destruct (alookup (lower n) env) as [v|] eqn:A; [|congruence]. exists v. split; [reflexivity|].
  unfold evaluate. simpl. unfold lookup_name. rewrite HL, A. reflexivity.
Qed.

Lemma has_dup_false_nodup l : has_dup l = false -> NoDup l.
Proof.
  induction l as [|x l IH]; simpl; intros H; [constructor|].
  apply orb_false_iff in H. destruct H as [H1 H2]. constructor; [|now apply IH].
  intros X. apply mem_In in X. congruence.
Qed.
Lemma parse_ok_nodup cfg : parse_ok cfg = true -> NoDup (map v_name (g_views cfg)).
Proof. unfold parse_ok. intros H. apply negb_true_iff in H. now apply has_dup_false_nodup. Qed.

(* ---- nothing escapes the modelled evaluator (ExpressionEvaluator.evaluate wraps every Exception) ---- *)
Lemma evaluate_no_crash vars c e : evaluate vars c e <> Crash.
Proof. unfold evaluate, wrap. destruct (eval vars c e); discriminate. Qed.

Lemma num_cmp_no_crash a b : num_cmp a b <> Crash.
Proof.
  unfold num_cmp. destruct a, b;
    repeat match goal with |- context [if ?b then _ else _] => destruct b end; discriminate.
Qed.

Lemma truthy_no_crash v : truthy v <> Crash.
Proof.
  destruct v; simpl; try discriminate; unfold is_zero_num, bind;
    match goal with |- context [num_cmp ?a ?b] => pose proof (num_cmp_no_crash a b); destruct (num_cmp a b) end;
    congruence.
Qed.

Lemma eval_vars_no_crash ds c : forall start, eval_vars ds c start <> Crash.
Proof.
  unfold eval_vars. intros start.
  assert (H : forall acc : res env, acc <> Crash ->
            fold_left (fun acc ne => vars <- acc ;;
                                     match evaluate vars c (snd ne) with
                                     | Val v => Val (dset vars (fst ne) v)
                                     | ExprErr => Val (dset vars (fst ne) VNone)
                                     | Crash => Crash
                                     | Unmod r => Unmod r
                                     end) ds acc <> Crash).
  { induction ds as [|d ds IH]; intros acc Ha; simpl; [exact Ha|]. apply IH.
    destruct acc as [vars| | |r]; simpl; try discriminate; [|congruence].
    pose proof (evaluate_no_crash vars c (snd d)). destruct (evaluate vars c (snd d)); congruence. }
  apply H. discriminate.
Qed.

Lemma eval_filter_no_crash v c g : eval_filter v c g <> Crash.
Proof.
  unfold eval_filter, bind. pose proof (eval_vars_no_crash (norm_defs (v_vars v)) c g).
  destruct (eval_vars _ c g) as [vars| | |r]; try congruence.
  pose proof (evaluate_no_crash vars c (v_filter v)). destruct (evaluate vars c (v_filter v)); try congruence.
  apply truthy_no_crash.
Qed.

Section NoAbort.
  Variable cfg : config.
  Variable ms : list merchant.
  Variable fbg : merchant -> bool.
  Variable fb : view -> merchant -> outcome.
  Hypothesis fbg_ok : forall m, fbg m = true.
  Hypothesis fb_ok : forall v m, fb v m <> OCrash.

  Lemma model_globals_always_ok m : model_globals_ok cfg ms fbg m = true.
  Proof.
    unfold model_globals_ok, globals_of. pose proof (eval_vars_no_crash (norm_defs (g_vars cfg)) (mctx ms m) []).
    destruct (eval_vars _ _ _); try reflexivity; [congruence|apply fbg_ok].
  Qed.

  Lemma model_filter_never_crashes v m : model_filter_true cfg ms fb v m <> OCrash.
  Proof.
    unfold model_filter_true, model_outcome, bind, globals_of.
    pose proof (eval_vars_no_crash (norm_defs (g_vars cfg)) (mctx ms m) []) as H0.
    destruct (eval_vars (norm_defs (g_vars cfg)) (mctx ms m) []) as [g| | |r].
    - pose proof (eval_filter_no_crash v (mctx ms m) g) as H1.
      destruct (eval_filter v (mctx ms m) g) as [[|]| | |r].
      + discriminate.
      + discriminate.
      + discriminate.
      + congruence.
      + apply fb_ok.
    - discriminate.
    - congruence.
    - apply fb_ok.
  Qed.

  Theorem model_run_never_aborts : exists r, classify_by_sections cfg ms fbg fb = Some r.
  Proof.
    unfold classify_by_sections. apply run_completes.
    - intros m _ _. apply model_globals_always_ok.
    - intros m v _ _ _. apply model_filter_never_crashes.
  Qed.
End NoAbort.

(* ======================= deepening: partition, week keys, tag membership ======================= *)

(* ---- by(): the groups PARTITION the payments, no group is empty ------------------------------- *)
Section Partition.
  Context {A : Type}.
  Variable key : payment -> Z.
  Variable val : payment -> A.

  Lemma g_add_perm k (a : A) g : Permutation (flat_map snd (g_add k a g)) (flat_map snd g ++ [a]).
  Proof.
    induction g as [|[k0 l] r IH]; simpl; [reflexivity|].
    destruct (k =? k0)%Z; simpl.
    - rewrite <- !app_assoc. apply Permutation_app_head. apply Permutation_app_comm.
    - rewrite IH, app_assoc. reflexivity.
  Qed.

  Lemma g_add_nonempty k (a : A) g : Forall (fun e => snd e <> []) g -> Forall (fun e => snd e <> []) (g_add k a g).
  Proof.
    induction g as [|[k0 l] r IH]; simpl; intros H.
    - constructor; [discriminate|constructor].
    - inversion H as [|x xs Hx Hr]; subst. destruct (k =? k0)%Z.
      + constructor; [simpl; destruct l; discriminate|exact Hr].
      + constructor; [exact Hx|now apply IH].
  Qed.

  Lemma gfold_perm txns : forall g,
    Permutation (flat_map snd (gfold key val txns g)) (flat_map snd g ++ map val txns).
  Proof.
    induction txns as [|p txns IH]; intros g; simpl; [now rewrite app_nil_r|].
    unfold gfold in *. simpl. rewrite IH, g_add_perm, <- app_assoc. reflexivity.
  Qed.

  Lemma gfold_nonempty txns : forall g,
    Forall (fun e => snd e <> []) g -> Forall (fun e => snd e <> []) (gfold key val txns g).
  Proof.
    induction txns as [|p txns IH]; intros g H; simpl; [exact H|].
    unfold gfold in *. simpl. apply IH. now apply g_add_nonempty.
  Qed.

  Lemma group_by_partition txns :
    Permutation (flat_map snd (group_by key val txns)) (map val txns) /\
    Forall (fun e => snd e <> []) (group_by key val txns).
  Proof.
    change (group_by key val txns) with (gfold key val txns []). split.
    - apply (gfold_perm txns []).
    - apply gfold_nonempty. constructor.
  Qed.
End Partition.

Lemma flat_map_perm {A B} (f : A -> list B) l l' : Permutation l l' -> Permutation (flat_map f l) (flat_map f l').
Proof.
  induction 1; simpl.
  - reflexivity.
  - now apply Permutation_app_head.
  - rewrite !app_assoc. apply Permutation_app_tail. apply Permutation_app_comm.
  - etransitivity; eassumption.
Qed.

(* every payment is in exactly one by()-group (as a multiset), and no group is empty *)
Theorem by_partition (c : ctx) (f : field) :
  exists groups : list (list value),
    get_by c f = VList (map VList groups) /\
    Permutation (concat groups) (map pay_val (c_txns c)) /\
    Forall (fun g => g <> []) groups.
Proof.
  set (G := group_by (key_of f) pay_val (c_txns c)).
  exists (map snd (sort_keys G)). split; [|split].
  - unfold get_by. fold G. now rewrite map_map.
  - rewrite <- flat_map_concat_map. etransitivity; [apply flat_map_perm, sort_keys_perm|].
    apply (group_by_partition (key_of f) pay_val (c_txns c)).
  - apply Forall_forall. intros g Hg. apply in_map_iff in Hg. destruct Hg as [e [Ee He]]. subst g.
    destruct (group_by_partition (key_of f) pay_val (c_txns c)) as [_ NE]. fold G in NE.
    rewrite Forall_forall in NE. apply NE. eapply Permutation_in; [apply sort_keys_perm|exact He].
Qed.

(* ---- by("week"): two dates of one calendar year share a group iff they share their Monday -------- *)
Definition monday_of (o : Z) : Z := (o - (o + 6) mod 7)%Z.       (* ordinal of the Monday on or before o *)

Lemma week_same_monday (j o1 o2 : Z) :
  ((o1 - j + 7 - (o1 + 6) mod 7) / 7 = (o2 - j + 7 - (o2 + 6) mod 7) / 7 <-> monday_of o1 = monday_of o2)%Z.
Proof.
  unfold monday_of.
  assert (H1 := Z.mod_pos_bound (o1 + 6) 7 ltac:(lia)).
  assert (H2 := Z.mod_pos_bound (o2 + 6) 7 ltac:(lia)).
  assert (D1 := Z.div_mod (o1 + 6) 7 ltac:(lia)).
  assert (D2 := Z.div_mod (o2 + 6) 7 ltac:(lia)).
  set (r1 := ((o1 + 6) mod 7)%Z) in *. set (r2 := ((o2 + 6) mod 7)%Z) in *.
  set (q1 := ((o1 + 6) / 7)%Z) in *. set (q2 := ((o2 + 6) / 7)%Z) in *.
  (* o - r = 7 q - 6, so both numerators are 7 q - 6 - j + 7 *)
  replace (o1 - j + 7 - r1)%Z with (q1 * 7 + (1 - j))%Z by lia.
  replace (o2 - j + 7 - r2)%Z with (q2 * 7 + (1 - j))%Z by lia.
  replace (o1 - r1)%Z with (7 * q1 - 6)%Z by lia. replace (o2 - r2)%Z with (7 * q2 - 6)%Z by lia.
  rewrite !Z.div_add_l by lia. lia.
Qed.

Definition valid_md (m d : Z) : Prop := (1 <= m <= 12 /\ 1 <= d <= 31)%Z.

Lemma dbm_jan y : days_before_month y 1 = 0%Z.
Proof. reflexivity. Qed.

Lemma dbm_bound y m : (1 <= m <= 12 -> 0 <= days_before_month y m <= 335)%Z.
Proof.
  intros Hm. unfold days_before_month.
  assert (C : (m = 1 \/ m = 2 \/ m = 3 \/ m = 4 \/ m = 5 \/ m = 6 \/ m = 7 \/ m = 8 \/ m = 9 \/ m = 10 \/ m = 11 \/ m = 12)%Z) by lia.
  repeat (destruct C as [C|C]; [subst m|]); try subst m;
    (match goal with |- context [nth ?n ?l ?d] => let v := eval vm_compute in (nth n l d) in change (nth n l d) with v end);
    (match goal with |- context [(2 <? ?k)%Z] => let v := eval vm_compute in (2 <? k)%Z in change (2 <? k)%Z with v end);
    cbn [andb]; destruct (is_leap y); lia.
Qed.

Lemma yday_bound y m d : valid_md m d -> (0 <= ordinal y m d - ordinal y 1 1 <= 366)%Z.
Proof.
  intros [Hm Hd]. unfold ordinal. rewrite dbm_jan. pose proof (dbm_bound y m Hm). lia.
Qed.

Lemma week_W_bound y m d : valid_md m d -> (0 <= week_W y m d < 64)%Z.
Proof.
  intros V. pose proof (yday_bound y m d V) as B. unfold week_W, weekday.
  assert (H := Z.mod_pos_bound (ordinal y m d + 6) 7 ltac:(lia)).
  split.
  - apply Z.div_pos; lia.
  - apply Z.div_lt_upper_bound; lia.
Qed.

(* the '%Y-W%W' key: equal for two valid dates iff same calendar year and same Monday-based week *)
Theorem week_key_spec (p1 p2 : payment) :
  valid_md (p_month p1) (p_day p1) -> valid_md (p_month p2) (p_day p2) ->
  (key_of FWeek p1 = key_of FWeek p2 <->
   p_year p1 = p_year p2 /\
   monday_of (ordinal (p_year p1) (p_month p1) (p_day p1)) = monday_of (ordinal (p_year p2) (p_month p2) (p_day p2))).
Proof.
  intros V1 V2. unfold key_of.
  pose proof (week_W_bound (p_year p1) _ _ V1) as B1. pose proof (week_W_bound (p_year p2) _ _ V2) as B2.
  split.
  - intros E. assert (Y : p_year p1 = p_year p2) by lia. split; [exact Y|].
    assert (W : week_W (p_year p1) (p_month p1) (p_day p1) = week_W (p_year p2) (p_month p2) (p_day p2)) by lia.
    unfold week_W, weekday in W. rewrite <- Y in W |- *.
    exact (proj1 (week_same_monday (ordinal (p_year p1) 1 1) _ _) W).
  - intros [Y M]. rewrite <- Y in M |- *. f_equal. unfold week_W, weekday.
    exact (proj2 (week_same_monday (ordinal (p_year p1) 1 1) _ _) M).
Qed.

(* ---- tags: `"x" in tags` is equality of the lower-cased forms; exclusion likewise ------------------- *)
Lemma mem_dedup x l : mem x (dedup l) = mem x l.
Proof.
  induction l as [|y l IH]; simpl; [reflexivity|].
  destruct (mem y (dedup l)) eqn:E.
  - rewrite IH. destruct (String.eqb_spec x y) as [->|]; [now rewrite <- IH|reflexivity].
  - simpl. now rewrite IH.
Qed.

Theorem tag_membership (c : ctx) (a : string) :
  c_txns c <> [] ->
  exists b, py_in (VStr a) (get_tags c) = Val b /\
            (b = true <-> exists t, In t (c_tags c) /\ lower t = lower a).
Proof.
  intros NE. unfold get_tags. destruct (c_txns c) as [|p ps]; [congruence|].
  simpl. eexists. split; [reflexivity|]. rewrite mem_dedup. apply mem_map_iff.
Qed.

Theorem excluded_spec (m : merchant) :
  excluded m = true <->
  exists t, In t (m_tags m) /\ (lower t = "income" \/ lower t = "transfer" \/ lower t = "investment")%string.
Proof.
  unfold excluded, Py.is_excluded_from_spending, Py.get_tags_lower, inter_nonempty. simpl.
  rewrite existsb_exists. split.
  - intros [x [Hx Hm]]. apply in_map_iff in Hx. destruct Hx as [t [Et Ht]]. subst x. exists t. split; [exact Ht|].
    unfold Py.EXCLUDED_FROM_SPENDING, Py.INCOME_TAG, Py.TRANSFER_TAG, Py.INVESTMENT_TAG in Hm. simpl in Hm.
    destruct (String.eqb_spec (lower t) "income"); [auto|].
    destruct (String.eqb_spec (lower t) "transfer"); [auto|].
    destruct (String.eqb_spec (lower t) "investment"); [auto|discriminate].
  - intros [t [Ht H]]. exists (lower t). split; [now apply in_map|].
    unfold Py.EXCLUDED_FROM_SPENDING, Py.INCOME_TAG, Py.TRANSFER_TAG, Py.INVESTMENT_TAG. simpl.
    destruct H as [H|[H|H]]; rewrite H; reflexivity.
Qed.

(* ---- by_merchant: each transaction lands in exactly one merchant, in order -------------------- *)
Fixpoint mfind (n : string) (ms : list merchant) : option merchant :=
  match ms with [] => None | m :: r => if String.eqb n (m_name m) then Some m else mfind n r end.
Definition pays_of (n : string) (ms : list merchant) : list payment :=
  match mfind n ms with Some m => m_payments m | None => [] end.
Definition tags_of (n : string) (ms : list merchant) : list string :=
  match mfind n ms with Some m => m_tags m | None => [] end.
Definition of_merchant (n : string) (t : txn) : bool := String.eqb (t_merchant t) n.

Lemma mfind_bm_add t ms n :
  mfind n (bm_add t ms) =
  if String.eqb n (t_merchant t)
  then Some match mfind n ms with
            | Some m => {| m_name := m_name m; m_category := t_category t; m_subcategory := t_subcategory t;
                           m_tags := (m_tags m ++ t_tags t)%list; m_payments := (m_payments m ++ [eff t])%list |}
            | None => {| m_name := t_merchant t; m_category := t_category t; m_subcategory := t_subcategory t;
                         m_tags := t_tags t; m_payments := [eff t] |}
            end
  else mfind n ms.
Proof.
  induction ms as [|m r IH]; simpl.
  - destruct (String.eqb n (t_merchant t)); reflexivity.
  - destruct (String.eqb (t_merchant t) (m_name m)) eqn:E; simpl.
    + apply String.eqb_eq in E. destruct (String.eqb n (m_name m)) eqn:N; rewrite E, N; reflexivity.
    + destruct (String.eqb n (m_name m)) eqn:N.
      * destruct (String.eqb n (t_merchant t)) eqn:N2; [|reflexivity].
        apply String.eqb_eq in N. apply String.eqb_eq in N2. rewrite <- N2, <- N, String.eqb_refl in E. discriminate.
      * exact IH.
Qed.

Lemma names_bm_add t ms n : In n (map m_name (bm_add t ms)) <-> n = t_merchant t \/ In n (map m_name ms).
Proof.
  induction ms as [|m r IH]; simpl; [intuition|].
  destruct (String.eqb (t_merchant t) (m_name m)) eqn:E; simpl.
  - apply String.eqb_eq in E. rewrite E. intuition.
  - rewrite IH. intuition.
Qed.

Lemma nodup_bm_add t ms : NoDup (map m_name ms) -> NoDup (map m_name (bm_add t ms)).
Proof.
  induction ms as [|m r IH]; simpl; intros H; [constructor; [intros []|constructor]|].
  inversion H as [|x xs Hn Hr]; subst. destruct (String.eqb (t_merchant t) (m_name m)) eqn:E; simpl.
  - constructor; assumption.
  - constructor; [|now apply IH]. intros X. apply names_bm_add in X. destruct X as [X|X]; [|contradiction].
    rewrite X, String.eqb_refl in E. discriminate.
Qed.

Lemma pays_bm_add t ms n :
  pays_of n (bm_add t ms) = if of_merchant n t then (pays_of n ms ++ [eff t])%list else pays_of n ms.
Proof.
  unfold pays_of, of_merchant. rewrite mfind_bm_add, (eqb_sym' (t_merchant t) n).
  destruct (String.eqb n (t_merchant t)); [|reflexivity]. destruct (mfind n ms); reflexivity.
Qed.
Lemma tags_bm_add t ms n :
  tags_of n (bm_add t ms) = if of_merchant n t then (tags_of n ms ++ t_tags t)%list else tags_of n ms.
Proof.
  unfold tags_of, of_merchant. rewrite mfind_bm_add, (eqb_sym' (t_merchant t) n).
  destruct (String.eqb n (t_merchant t)); [|reflexivity]. destruct (mfind n ms); reflexivity.
Qed.

Lemma by_merchant_fold txns : forall ms n,
  let r := fold_left (fun ms t => bm_add t ms) txns ms in
  pays_of n r = (pays_of n ms ++ map eff (filter (of_merchant n) txns))%list /\
  tags_of n r = (tags_of n ms ++ flat_map t_tags (filter (of_merchant n) txns))%list /\
  (NoDup (map m_name ms) -> NoDup (map m_name r)) /\
  (In n (map m_name r) <-> In n (map m_name ms) \/ exists t, In t txns /\ t_merchant t = n).
Proof.
  induction txns as [|t txns IH]; intros ms n; cbv zeta; simpl.
  - rewrite !app_nil_r. split; [reflexivity|]. split; [reflexivity|]. split; [auto|].
    split; [auto|]. intros [H|[t [F _]]]; [exact H|destruct F].
  - destruct (IH (bm_add t ms) n) as (P & T & N & I). cbv zeta in P, T, N, I. rewrite P, T, pays_bm_add, tags_bm_add.
    split; [|split; [|split]].
    + destruct (of_merchant n t); simpl; [now rewrite <- app_assoc|reflexivity].
    + destruct (of_merchant n t); simpl; [now rewrite <- !app_assoc|reflexivity].
    + intros H. apply N. now apply nodup_bm_add.
    + rewrite I, names_bm_add. split.
      * intros [[E|H]|[u [Hu E]]]; [right; exists t; auto|left; exact H|right; exists u; auto].
      * intros [H|[u [[E|Hu] E2]]]; [left; right; exact H|subst; left; left; reflexivity|right; exists u; auto].
Qed.

Lemma mfind_self ms m : NoDup (map m_name ms) -> In m ms -> mfind (m_name m) ms = Some m.
Proof.
  induction ms as [|x r IH]; simpl; intros ND H; [contradiction|].
  inversion ND as [|y ys Hn Hr]; subst. destruct H as [H|H]; [subst x; now rewrite String.eqb_refl|].
  destruct (String.eqb_spec (m_name m) (m_name x)) as [E|E]; [|now apply IH].
  exfalso. apply Hn. rewrite <- E. now apply in_map.
Qed.

(* THE statement: the merchants are the distinct names, and a merchant's payments / tags are exactly those of
   its own transactions, in order *)
Theorem by_merchant_spec (txns : list txn) :
  NoDup (map m_name (by_merchant txns)) /\
  (forall n, In n (map m_name (by_merchant txns)) <-> exists t, In t txns /\ t_merchant t = n) /\
  (forall m, In m (by_merchant txns) ->
     m_payments m = map eff (filter (of_merchant (m_name m)) txns) /\
     m_tags m = flat_map t_tags (filter (of_merchant (m_name m)) txns)).
Proof.
  unfold by_merchant.
  assert (ND : NoDup (map m_name (fold_left (fun ms t => bm_add t ms) txns []))).
  { destruct (by_merchant_fold txns [] ""%string) as (_ & _ & N & _). apply N. constructor. }
  split; [exact ND|]. split.
  - intros n. destruct (by_merchant_fold txns [] n) as (_ & _ & _ & I). rewrite I. simpl. intuition.
  - intros m Hm. destruct (by_merchant_fold txns [] (m_name m)) as (P & T & _ & _).
    unfold pays_of, tags_of in *. rewrite (mfind_self _ m ND Hm) in P, T. simpl in P, T. split; assumption.
Qed.

(* a merchant is left out of every view iff one of ITS transactions carries a special tag (any letter case) *)
Theorem by_merchant_excluded (txns : list txn) (m : merchant) :
  In m (by_merchant txns) ->
  (excluded m = true <->
   exists t tag, In t txns /\ t_merchant t = m_name m /\ In tag (t_tags t) /\
                 (lower tag = "income" \/ lower tag = "transfer" \/ lower tag = "investment")%string).
Proof.
  intros Hm. destruct (by_merchant_spec txns) as (_ & _ & S). destruct (S m Hm) as [_ T].
  rewrite excluded_spec, T. split.
  - intros [tag [Ht H]]. apply in_flat_map in Ht. destruct Ht as [t [Hf Hi]]. apply filter_In in Hf.
    destruct Hf as [Hin Hof]. exists t, tag. repeat split; auto. now apply String.eqb_eq in Hof.
  - intros [t [tag (Hin & Hn & Hi & H)]]. exists tag. split; [|exact H]. apply in_flat_map. exists t. split; [|exact Hi].
    apply filter_In. split; [exact Hin|]. unfold of_merchant. rewrite Hn. apply String.eqb_refl.
Qed.

