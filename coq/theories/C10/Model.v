(* C10/Model.v — data and the membership loop of the views pipeline
   (analyzer.classify_by_sections -> section_engine.classify_merchants -> analyzer.compute_section_totals).

   The loop is PARAMETRIC in the filter evaluator: [filter_true : V -> M -> outcome] and [globals_ok]
   are Section variables, so every theorem about [classify] holds for every evaluator (the modelled
   one of C10/ViewEval.v, CPython's, a harness-filled oracle table).  No proofs in this file. *)
From Coq Require Import String List Bool ZArith QArith.
From Tally Require Import Lib.Str Lib.NumOps Gen.ClassificationPy.
Import ListNotations.
Module Py := ClassificationPy.

(* ---- data ------------------------------------------------------------------------------- *)
Record payment := { p_year : Z; p_month : Z; p_day : Z; p_amount : Q }.

Record merchant := {
  m_name : string; m_category : string; m_subcategory : string;
  m_tags : list string;            (* by_merchant[..]['tags']: union of the tags of its transactions *)
  m_payments : list payment }.     (* by_merchant[..]['transactions'] (date, effective amount), in order *)

(* what evaluating one view's filter for one merchant can do *)
Inductive outcome :=
| OTrue | OFalse
| OExprError      (* expr_parser.ExpressionError: caught by evaluate_section_filter -> False *)
| OCrash.         (* any other exception (TypeError, AttributeError, ...): nobody catches it *)

Definition is_true (o : outcome) : bool := match o with OTrue => true | _ => false end.
Definition is_crash (o : outcome) : bool := match o with OCrash => true | _ => false end.

(* only [lower_fn] is used by the translated is_excluded_from_spending *)
Definition str_ops : numops Z := {|
  nzero := 0%Z; nabs := Z.abs;
  ngt0 := fun x => (0 <? x)%Z; nlt0 := fun x => (x <? 0)%Z; nge0 := fun x => (0 <=? x)%Z; nle0 := fun x => (x <=? 0)%Z;
  nadd := Z.add; nsub := Z.sub; lower_fn := lower |}.

(* analyzer.py:223 — is_excluded_from_spending(list(data.get('tags', []))), translated from /repo *)
Definition excluded (m : merchant) : bool := Py.is_excluded_from_spending str_ops (Some (m_tags m)).

Definition sumQ (l : list Q) : Q := fold_left Qplus l 0.          (* Python sum(): left fold from 0 *)
Definition m_total (m : merchant) : Q := sumQ (map p_amount (m_payments m)).   (* data['total'] *)

(* ---- Python dict with string keys, insertion-ordered ------------------------------------- *)
Section Assoc.
  Context {A : Type}.
  Fixpoint alookup (k : string) (d : list (string * A)) : option A :=
    match d with [] => None | (k', v) :: r => if String.eqb k k' then Some v else alookup k r end.
  Fixpoint has_key (k : string) (d : list (string * A)) : bool :=
    match d with [] => false | (k', _) :: r => if String.eqb k k' then true else has_key k r end.
End Assoc.

(* ---- the membership loop ----------------------------------------------------------------- *)
Section Classify.
  Context {M V : Type}.
  Variable excl : M -> bool.                  (* merchant carries a special tag *)
  Variable vname : V -> string.
  Variable globals_ok : M -> bool.            (* false: evaluating the global variables raised a non-ExpressionError *)
  Variable filter_true : V -> M -> outcome.   (* evaluate_section_filter, incl. view-local variables *)
  Variable mtotal : M -> Q.                   (* data['total'] *)

  Definition result := list (string * list M).

  (* classify_by_sections: `if is_excluded_from_spending(...): continue` *)
  Definition groups (ms : list M) : list M := filter (fun m => negb (excl m)) ms.

  (* result = {section.name: [] for section in config.sections}: later duplicates of a key are dropped *)
  Fixpoint init (vs : list V) (acc : result) : result :=
    match vs with
    | [] => acc
    | v :: r => init r (if has_key (vname v) acc then acc else (acc ++ [(vname v, [])])%list)
    end.

  (* result[section.name].append(merchant) *)
  Fixpoint append_to (n : string) (m : M) (r : result) : result :=
    match r with
    | [] => []
    | (k, l) :: r' => if String.eqb n k then (k, (l ++ [m])%list) :: r' else (k, l) :: append_to n m r'
    end.

  (* None = an exception escaped and the run is aborted *)
  Definition step_view (m : M) (acc : option result) (v : V) : option result :=
    match acc with
    | None => None
    | Some r => match filter_true v m with
                | OCrash => None
                | OTrue => Some (append_to (vname v) m r)
                | OFalse | OExprError => Some r
                end
    end.

  Definition step_merchant (vs : list V) (acc : option result) (m : M) : option result :=
    match acc with
    | None => None
    | Some r => if globals_ok m then fold_left (step_view m) vs (Some r) else None
    end.

  Definition classify (vs : list V) (ms : list M) : option result :=
    fold_left (step_merchant vs) (groups ms) (Some (init vs [])).

  Definition members (r : result) (n : string) : list M :=
    match alookup n r with Some l => l | None => [] end.

  (* compute_section_totals: sum(data.get('total', 0) for _, data in section_merchants), len(...) *)
  Definition view_total (r : result) (n : string) : Q := sumQ (map mtotal (members r n)).
  Definition view_count (r : result) (n : string) : nat := length (members r n).
End Classify.
