(* C02/Proofs.v — tags are the union over all matching rules; tag-only rules never categorize. For all oracles. *)
From Coq Require Import String Ascii List Bool ZArith Arith Lia Permutation.
From Tally Require Import Lib.Str Engine.StrLib Engine.CaseMap Engine.Model Engine.Lemmas C01.Proofs C09.Proofs.
Import ListNotations.
Open Scope string_scope.

(* ---- resolve_tag ---- *)
Lemma is_empty_lower : forall s, is_empty (lower s) = is_empty s.
Proof. intros [|c r]; reflexivity. Qed.

Lemma is_empty_true : forall s, is_empty s = true <-> s = "".
Proof. intros [|c r]; cbn; split; congruence. Qed.

Lemma resolve_tag_spec : forall o r raw,
  (strip raw = "" -> resolve_tag o r raw = Some []) /\
  (strip raw <> "" -> is_dynamic (strip raw) = false -> resolve_tag o r raw = Some [lower (strip raw)]) /\
  (strip raw <> "" -> is_dynamic (strip raw) = true ->
   (strip (inner (strip raw)) = "" -> resolve_tag o r raw = Some []) /\
   (strip (inner (strip raw)) <> "" ->
    match o_dyn o r (strip (inner (strip raw))) with
    | DScalar true s => resolve_tag o r raw = Some (if is_empty (strip s) then [] else [lower (strip s)])
    | DScalar false _ => resolve_tag o r raw = Some []
    | DList items => resolve_tag o r raw =
                     Some (map (fun it => lower (strip (snd it)))
                               (filter (fun it => (fst it && negb (is_empty (strip (snd it))))%bool) items))
    | DErr => resolve_tag o r raw = Some []
    | DCrash => resolve_tag o r raw = None
    end)).
Proof.
  intros o r raw. unfold resolve_tag. cbv zeta.
  split; [intros ->; reflexivity|]. split.
  - intros Hne Hd. destruct (is_empty (strip raw)) eqn:E; [apply is_empty_true in E; contradiction|]. rewrite Hd. reflexivity.
  - intros Hne Hd. destruct (is_empty (strip raw)) eqn:E; [apply is_empty_true in E; contradiction|]. rewrite Hd.
    split; [intros ->; reflexivity|]. intros He.
    destruct (is_empty (strip (inner (strip raw)))) eqn:E2; [apply is_empty_true in E2; contradiction|].
    destruct (o_dyn o r (strip (inner (strip raw)))) as [[|] s|items| |]; try reflexivity.
    destruct (is_empty (strip s)); reflexivity.
Qed.

(* no resolved tag is the empty string (since the fix "skip blank items of a list-valued tag": before it a list value
   with a whitespace-only item put "" into the tag set) *)
Lemma resolve_tag_nonempty : forall o r raw l, resolve_tag o r raw = Some l -> ~ In "" l.
Proof.
  intros o r raw l H. unfold resolve_tag in H.
  destruct (is_empty (strip raw)) eqn:E; [injection H as <-; tauto|].
  destruct (is_dynamic (strip raw)).
  - destruct (is_empty (strip (inner (strip raw)))) eqn:E2; [injection H as <-; tauto|].
    destruct (o_dyn o r (strip (inner (strip raw)))) as [[|] s|items| |]; try (injection H as <-; tauto); try discriminate.
    + destruct (is_empty (strip s)) eqn:E3; injection H as <-; [tauto|].
      intros [K|[]]. unfold low_strip in K. assert (is_empty (lower (strip s)) = true) by (rewrite K; reflexivity).
      rewrite is_empty_lower in H. congruence.
    + injection H as <-. intros K. apply in_map_iff in K. destruct K as (it & K1 & K2).
      apply filter_In in K2. destruct K2 as [_ K3]. apply andb_prop in K3. destruct K3 as [_ K3].
      unfold low_strip in K1.
      assert (Hl : is_empty (lower (strip (snd it))) = true) by (rewrite K1; reflexivity).
      rewrite is_empty_lower in Hl. rewrite Hl in K3. discriminate.
  - injection H as <-. intros [K|[]].
    assert (Hl : is_empty (lower (strip raw)) = true) by (rewrite K; reflexivity). rewrite is_empty_lower in Hl. congruence.
Qed.

Lemma resolve_tags_nonempty : forall o r raws l, resolve_tags o r raws = Some l -> ~ In "" l.
Proof.
  intros o r raws. induction raws as [|x rest IH]; intros l H; cbn in H.
  - injection H as <-. tauto.
  - destruct (resolve_tag o r x) as [a|] eqn:A; [|discriminate].
    destruct (resolve_tags o r rest) as [b|] eqn:B; [|discriminate]. injection H as <-.
    intros K. apply in_app_or in K. destruct K as [K|K].
    + exact (resolve_tag_nonempty o r x a A K).
    + exact (IH b eq_refl K).
Qed.

Lemma tags_nonempty : forall o m rules res, engine_match m rules o = Res res -> ~ In "" (tags res).
Proof.
  intros o m rules res H K. apply (tags_union o m rules res "" H) in K. destruct K as (r & _ & _ & K).
  unfold rtags in K. destruct (resolve_tags o r (r_tags r)) as [l|] eqn:E; [|exact K].
  exact (resolve_tags_nonempty o r (r_tags r) l E K).
Qed.

(* the input that used to put "" into the tag set *)
Definition blank_rule : rule :=
  {| r_id := 0; r_name := "Orders"; r_match := "true"; r_category := ""; r_subcategory := ""; r_merchant := "Orders";
     r_tags := ["{[r.kind for r in extra]}"]; r_priority := 50; r_fields := [] |}.
Definition blank_oracle : oracle :=
  {| o_gv_crash := false; o_cond := fun _ => RTrue; o_dyn := fun _ _ => DList [(true, "Alpha"); (true, " "); (false, "")];
     o_field := fun _ _ => FErr |}.

(* ---- permutation invariance of the tag set ---- *)
Lemma tags_permutation_invariant : forall o m m' rules rules' res res' t,
  Permutation rules rules' ->
  engine_match m rules o = Res res -> engine_match m' rules' o = Res res' ->
  (In t (tags res) <-> In t (tags res')).
Proof.
  intros o m m' rules rules' res res' t P H H'.
  rewrite (tags_union o m rules res t H), (tags_union o m' rules' res' t H').
  split; intros (r & Hr & Hc & Ht); exists r; repeat split; auto.
  - eapply Permutation_in; eassumption.
  - eapply Permutation_in; [apply Permutation_sym|]; eassumption.
Qed.

(* ---- tag-only rules are neutral in first_match mode ---- *)
Lemma finish_fm_fields : forall o s1 s2 r1 r2,
  s_first s1 = s_first s2 -> finish o FirstMatch s1 = Res r1 -> finish o FirstMatch s2 = Res r2 ->
  matched r1 = matched r2 /\ merchant r1 = merchant r2 /\ category r1 = category r2 /\ subcategory r1 = subcategory r2 /\
  matched_rule r1 = matched_rule r2 /\ merchant_rule r1 = merchant_rule r2 /\ subcategory_rule r1 = subcategory_rule r2 /\
  extra_fields r1 = extra_fields r2.
Proof.
  intros o s1 s2 r1 r2 E H1 H2. unfold finish in *. rewrite <- E in H2.
  destruct (s_first s1) as [w|].
  - destruct (eval_fields o w (r_fields w)); [|discriminate]. injection H1 as <-. injection H2 as <-. cbn. repeat split; reflexivity.
  - injection H1 as <-. injection H2 as <-. cbn. repeat split; reflexivity.
Qed.

Lemma tag_only_neutral_first_match : forall o pre t post r1 r2,
  is_cat t = false ->
  engine_match FirstMatch (pre ++ t :: post)%list o = Res r1 -> engine_match FirstMatch (pre ++ post)%list o = Res r2 ->
  matched r1 = matched r2 /\ merchant r1 = merchant r2 /\ category r1 = category r2 /\ subcategory r1 = subcategory r2 /\
  matched_rule r1 = matched_rule r2 /\ merchant_rule r1 = merchant_rule r2 /\ subcategory_rule r1 = subcategory_rule r2 /\
  extra_fields r1 = extra_fields r2.
Proof.
  intros o pre t post r1 r2 Ht H1 H2.
  apply engine_match_res in H1. apply engine_match_res in H2.
  destruct H1 as (_ & _ & H1). destruct H2 as (_ & _ & H2).
  eapply finish_fm_fields; [|exact H1|exact H2].
  cbn [final_state s_first]. rewrite !find_filter, !find_app. cbn [find]. rewrite Ht, andb_false_r. reflexivity.
Qed.

(* ---- most_specific mode ---- *)
Definition tag_only_neutral_most_specific_statement : Prop :=
  forall o pre t post r1 r2,
    is_cat t = false ->
    engine_match MostSpecific (pre ++ t :: post)%list o = Res r1 -> engine_match MostSpecific (pre ++ post)%list o = Res r2 ->
    merchant r1 = merchant r2 /\ category r1 = category r2 /\ subcategory r1 = subcategory r2.

Definition f2_netflix : rule :=
  {| r_id := 0; r_name := "Netflix"; r_match := "contains(""NETFLIX"")"; r_category := "Subs"; r_subcategory := "Streaming";
     r_merchant := "Netflix"; r_tags := []; r_priority := 50; r_fields := [] |}.
Definition f2_tag : rule :=
  {| r_id := 1; r_name := "Big tag"; r_match := "contains(""NETFLIX"") and amount > 10"; r_category := ""; r_subcategory := "Zed";
     r_merchant := "Big tag"; r_tags := ["big"]; r_priority := 50; r_fields := [] |}.
Definition f2_oracle : oracle :=
  {| o_gv_crash := false; o_cond := fun _ => RTrue; o_dyn := fun _ _ => DErr; o_field := fun _ _ => FErr |}.

Lemma tag_only_neutral_most_specific_refuted : ~ tag_only_neutral_most_specific_statement.
Proof.
  intros H. specialize (H f2_oracle [f2_netflix] f2_tag [] _ _ eq_refl eq_refl eq_refl).
  vm_compute in H. destruct H as (H & _). discriminate.
Qed.

Lemma cands_insert : forall (f : rule -> bool) o pre t post,
  filter f (filter (is_match o) (pre ++ t :: post)%list) =
  (filter f (filter (is_match o) pre) ++ (if (is_match o t && f t)%bool then [t] else []) ++ filter f (filter (is_match o) post))%list.
Proof.
  intros f o pre t post. rewrite !filter_app'. cbn [filter]. destruct (is_match o t); cbn [andb filter].
  - destruct (f t); reflexivity.
  - reflexivity.
Qed.

Lemma cands_remove : forall (f : rule -> bool) o pre post,
  filter f (filter (is_match o) (pre ++ post)%list) = (filter f (filter (is_match o) pre) ++ filter f (filter (is_match o) post))%list.
Proof. intros. rewrite !filter_app'. reflexivity. Qed.

(* what does hold: the CATEGORY side is always neutral; merchant / subcategory are neutral when the tag-only rule cannot
   win them: it does not match, or does not set the field, or some matching rule that sets the field outranks it *)
Lemma tag_only_neutral_most_specific_partial : forall o pre t post r1 r2,
  is_cat t = false ->
  engine_match MostSpecific (pre ++ t :: post)%list o = Res r1 -> engine_match MostSpecific (pre ++ post)%list o = Res r2 ->
  (matched r1 = matched r2 /\ category r1 = category r2 /\ matched_rule r1 = matched_rule r2 /\ extra_fields r1 = extra_fields r2) /\
  ((is_match o t = false \/ has_sub t = false \/ exists x, In x (sub_cands o (pre ++ post)%list) /\ rlt t x) ->
   subcategory r1 = subcategory r2 /\ subcategory_rule r1 = subcategory_rule r2) /\
  ((is_match o t = false \/ has_merchant t = false \/ exists x, In x (mer_cands o (pre ++ post)%list) /\ rlt t x) ->
   merchant r1 = merchant r2 /\ merchant_rule r1 = merchant_rule r2).
Proof.
  intros o pre t post r1 r2 Ht H1 H2.
  assert (EC : cat_cands o (pre ++ t :: post)%list = cat_cands o (pre ++ post)%list).
  { unfold cat_cands. rewrite cands_insert, cands_remove, Ht, andb_false_r. reflexivity. }
  pose proof (finish_ms o _ _ H1) as (A1 & A2 & A3 & A4 & A5 & A6 & A7).
  pose proof (finish_ms o _ _ H2) as (B1 & B2 & B3 & B4 & B5 & B6 & B7).
  split.
  - rewrite A4, A5, A1, B4, B5, B1, EC. repeat split; try reflexivity.
    apply engine_match_res in H1. apply engine_match_res in H2.
    destruct H1 as (_ & _ & H1). destruct H2 as (_ & _ & H2). unfold finish in H1, H2.
    cbn [final_state s_matching] in H1, H2. fold (cat_cands o (pre ++ t :: post)%list) in H1. fold (cat_cands o (pre ++ post)%list) in H2.
    rewrite EC in H1.
    destruct (match py_max (cat_cands o (pre ++ post)%list) with Some w => eval_fields o w (r_fields w) | None => Some [] end);
      [|discriminate]. injection H1 as <-. injection H2 as <-. reflexivity.
  - split.
    + intros G. assert (E : py_max (sub_cands o (pre ++ t :: post)%list) = py_max (sub_cands o (pre ++ post)%list)).
      { unfold sub_cands. rewrite cands_insert, cands_remove.
        destruct (is_match o t) eqn:M; [|reflexivity]. destruct (has_sub t) eqn:S; [|reflexivity]. cbn [andb].
        destruct G as [G|[G|G]]; try discriminate. cbn [app].
        apply py_max_remove_dominated. unfold sub_cands in G. rewrite cands_remove in G. exact G. }
      rewrite A6, A2, B6, B2, E. auto.
    + intros G. assert (E : py_max (mer_cands o (pre ++ t :: post)%list) = py_max (mer_cands o (pre ++ post)%list)).
      { unfold mer_cands. rewrite cands_insert, cands_remove.
        destruct (is_match o t) eqn:M; [|reflexivity]. destruct (has_merchant t) eqn:S; [|reflexivity]. cbn [andb].
        destruct G as [G|[G|G]]; try discriminate. cbn [app].
        apply py_max_remove_dominated. unfold mer_cands in G. rewrite cands_remove in G. exact G. }
      rewrite A7, A3, B7, B3, E. auto.
Qed.

(* ---- normalize_merchant: tags of the cached-engine path, and the legacy loop ---- *)
Definition ntags (n : nres) : list string :=
  match n with NRes _ _ _ (Some i) => i_tags i | _ => [] end.

Lemma unknown_result_tags : forall t tgs, ntags (unknown_result t tgs) = tgs.
Proof. intros t tgs. unfold unknown_result. destruct tgs; destruct (t_raws t); reflexivity. Qed.

Lemma normalize_engine_tags : forall tf o_at md rules tfs t0 tg,
  normalize_engine tf o_at md rules tfs t0 <> NCrash ->
  let t := apply_transforms tf tfs t0 in
  let o := o_at (t_desc t) (t_fields t) in
  (In tg (ntags (normalize_engine tf o_at md rules tfs t0)) <->
   exists r, In r rules /\ o_cond o r = RTrue /\ In tg (rtags o r)).
Proof.
  intros tf o_at md rules tfs t0 tg H t o. unfold normalize_engine in *. fold t in H |- *. fold o in H |- *.
  destruct (engine_match md rules o) as [|res] eqn:E; [congruence|].
  rewrite <- (tags_union o md rules res tg E).
  destruct (matched res); [reflexivity|]. rewrite unknown_result_tags. reflexivity.
Qed.

Lemma normalize_legacy_tags : forall tf lo_at rules amount date tfs t0 tg,
  normalize_legacy tf lo_at rules amount date tfs t0 <> NCrash ->
  let t := apply_transforms tf tfs t0 in
  let lo := lo_at (t_desc t) (t_fields t) in
  (In tg (ntags (normalize_legacy tf lo_at rules amount date tfs t0)) <->
   exists r, In r rules /\ lmatch lo (py_upper (t_desc t)) amount date r = true /\ In tg (ltags lo (py_upper (t_desc t)) amount date r)).
Proof.
  intros tf lo_at rules amount date tfs t0 tg H t lo. unfold normalize_legacy in *. fold t in H |- *. fold lo in H |- *.
  rewrite lrun_lst0 in *. destruct (forallb (lok lo (py_upper (t_desc t)) amount date) rules); [|congruence].
  rewrite <- lfinal_tags_in.
  destruct (ls_first (lfinal lo (py_upper (t_desc t)) amount date rules)); [reflexivity|].
  rewrite unknown_result_tags. reflexivity.
Qed.

Lemma normalize_legacy_tag_only_neutral : forall tf lo_at pre t post amount date tfs t0 m c s i m' c' s' i',
  l_category t = "" ->
  normalize_legacy tf lo_at (pre ++ t :: post)%list amount date tfs t0 = NRes m c s i ->
  normalize_legacy tf lo_at (pre ++ post)%list amount date tfs t0 = NRes m' c' s' i' ->
  m = m' /\ c = c' /\ s = s'.
Proof.
  intros tf lo_at pre t post amount date tfs t0 m c s i m' c' s' i' Ht H1 H2.
  apply normalize_legacy_first_match in H1. apply normalize_legacy_first_match in H2. cbv zeta in H1, H2.
  rewrite find_app in H1, H2. cbn [find] in H1.
  assert (F : lcat_match (lo_at (t_desc (apply_transforms tf tfs t0)) (t_fields (apply_transforms tf tfs t0)))
                         (py_upper (t_desc (apply_transforms tf tfs t0))) amount date t = false).
  { unfold lcat_match, l_is_cat. rewrite Ht. cbn. apply andb_false_r. }
  rewrite F in H1.
  destruct (find _ pre) as [w|].
  - destruct H1 as (-> & -> & ->). destruct H2 as (-> & -> & ->). auto.
  - destruct (find _ post) as [w|].
    + destruct H1 as (-> & -> & ->). destruct H2 as (-> & -> & ->). auto.
    + destruct H1 as (-> & -> & ->). destruct H2 as (-> & -> & ->). auto.
Qed.
