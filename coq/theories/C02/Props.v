(* C02 — tags are the union over all matching rules; tag-only rules never categorize.
   Model: Engine/Model.v (MerchantEngine.match with _resolve_tags, normalize_merchant with its cached-engine path and
   its legacy tuple loop with _resolve_dynamic_tags).  The expression evaluator is an ORACLE: [o_cond o r] is the verdict
   on rule r's condition, [o_dyn o r e] the value of the expression e inside a {e} tag.  All theorems hold for every
   oracle.  [rtags o r] = the tags rule r resolves to (c02_resolve_tag_spec says what that is). *)
From Coq Require Import String Ascii List Bool ZArith Arith Permutation.
From Tally Require Import Lib.Str Engine.StrLib Engine.CaseMap Engine.Model Engine.Lemmas C01.Proofs C09.Proofs C02.Proofs.
Import ListNotations.
Open Scope string_scope.

(* in either mode the tag set is exactly the union, over the rules whose condition is true — categorizing or tag-only,
   wherever they sit — of their resolved tags *)
Theorem c02_tags_are_union :
  forall (o : oracle) (m : mode) (rules : list rule) (res : result) (t : string),
    engine_match m rules o = Res res ->
    (In t (tags res) <-> exists r, In r rules /\ o_cond o r = RTrue /\ In t (rtags o r)).
Proof. exact tags_union. Qed.
Print Assumptions c02_tags_are_union.

Theorem c02_tags_permutation_invariant :
  forall (o : oracle) (m m' : mode) (rules rules' : list rule) (res res' : result) (t : string),
    Permutation rules rules' ->
    engine_match m rules o = Res res -> engine_match m' rules' o = Res res' ->
    (In t (tags res) <-> In t (tags res')).
Proof. exact tags_permutation_invariant. Qed.
Print Assumptions c02_tags_permutation_invariant.

(* one raw tag: blank -> nothing; static -> lower-cased stripped text; {e}: blank e -> nothing, a truthy non-list value
   -> its text stripped and lower-cased unless blank, a falsy value or an ExpressionError -> nothing, a list -> one tag per
   truthy item whose text is not blank (stripped, lower-cased), any other exception escapes *)
Theorem c02_resolve_tag_spec :
  forall (o : oracle) (r : rule) (raw : string),
    (strip raw = "" -> resolve_tag o r raw = Some []) /\
    (strip raw <> "" -> is_dynamic (strip raw) = false -> resolve_tag o r raw = Some [lower (strip raw)]) /\
    (strip raw <> "" -> is_dynamic (strip raw) = true ->
     (strip (inner (strip raw)) = "" -> resolve_tag o r raw = Some []) /\
     (strip (inner (strip raw)) <> "" ->
      match o_dyn o r (strip (inner (strip raw))) with
      | DScalar true s => resolve_tag o r raw = Some (if is_empty (strip s) then [] else [lower (strip s)])
      | DScalar false _ => resolve_tag o r raw = Some []
      | DList items => resolve_tag o r raw =
                       Some (map (fun it => lower (strip (snd it)))
                                 (filter (fun it => (fst it && negb (is_empty (strip (snd it))))%bool) items))
      | DErr => resolve_tag o r raw = Some []
      | DCrash => resolve_tag o r raw = None
      end)).
Proof. exact resolve_tag_spec. Qed.
Print Assumptions c02_resolve_tag_spec.

(* tags are non-empty, in either mode, whatever the evaluator answers.  (History: before the fix "skip blank items of a
   list-valued tag" this statement was refuted — a list value with a whitespace-only item put "" into the tag set; finding
   C02/blank-item-of-list-valued-tag-kept, now fixed.  A regression re-breaks the correspondence and the union oracle.) *)
Theorem c02_tags_nonempty :
  forall (o : oracle) (m : mode) (rules : list rule) (res : result),
    engine_match m rules o = Res res -> ~ In "" (tags res).
Proof. exact tags_nonempty. Qed.
Print Assumptions c02_tags_nonempty.

(* first_match: inserting a rule without category at ANY position changes nothing but tags / tag sources / matching list *)
Theorem c02_tag_only_neutral_first_match :
  forall (o : oracle) (pre : list rule) (t : rule) (post : list rule) (r1 r2 : result),
    is_cat t = false ->
    engine_match FirstMatch (pre ++ t :: post) o = Res r1 -> engine_match FirstMatch (pre ++ post) o = Res r2 ->
    matched r1 = matched r2 /\ merchant r1 = merchant r2 /\ category r1 = category r2 /\ subcategory r1 = subcategory r2 /\
    matched_rule r1 = matched_rule r2 /\ merchant_rule r1 = merchant_rule r2 /\ subcategory_rule r1 = subcategory_rule r2 /\
    extra_fields r1 = extra_fields r2.
Proof. exact tag_only_neutral_first_match. Qed.
Print Assumptions c02_tag_only_neutral_first_match.

(* most_specific: the same statement is FALSE of the code — a tag-only rule "has a merchant" (merchant defaults to the
   rule name) and may carry a subcategory, and both are resolved over ALL matching rules *)
Definition c02_tag_only_neutral_most_specific_statement : Prop := tag_only_neutral_most_specific_statement.
Theorem c02_tag_only_neutral_most_specific_refuted : ~ c02_tag_only_neutral_most_specific_statement.
Proof. exact tag_only_neutral_most_specific_refuted. Qed.
Print Assumptions c02_tag_only_neutral_most_specific_refuted.

Theorem c02_tag_only_neutral_most_specific_partial :
  forall (o : oracle) (pre : list rule) (t : rule) (post : list rule) (r1 r2 : result),
    is_cat t = false ->
    engine_match MostSpecific (pre ++ t :: post) o = Res r1 -> engine_match MostSpecific (pre ++ post) o = Res r2 ->
    (matched r1 = matched r2 /\ category r1 = category r2 /\ matched_rule r1 = matched_rule r2 /\ extra_fields r1 = extra_fields r2) /\
    ((is_match o t = false \/ has_sub t = false \/ exists x, In x (sub_cands o (pre ++ post)) /\ rlt t x) ->
     subcategory r1 = subcategory r2 /\ subcategory_rule r1 = subcategory_rule r2) /\
    ((is_match o t = false \/ has_merchant t = false \/ exists x, In x (mer_cands o (pre ++ post)) /\ rlt t x) ->
     merchant r1 = merchant r2 /\ merchant_rule r1 = merchant_rule r2).
Proof. exact tag_only_neutral_most_specific_partial. Qed.
Print Assumptions c02_tag_only_neutral_most_specific_partial.

(* normalize_merchant, cached-engine path: same union (on the transformed transaction) *)
Theorem c02_normalize_tags_union :
  forall tf o_at md rules tfs t0 tg,
    normalize_engine tf o_at md rules tfs t0 <> NCrash ->
    let t := apply_transforms tf tfs t0 in
    let o := o_at (t_desc t) (t_fields t) in
    (In tg (ntags (normalize_engine tf o_at md rules tfs t0)) <->
     exists r, In r rules /\ o_cond o r = RTrue /\ In tg (rtags o r)).
Proof. exact normalize_engine_tags. Qed.
Print Assumptions c02_normalize_tags_union.

(* legacy tuple loop *)
Theorem c02_legacy_tags_union :
  forall tf lo_at rules amount date tfs t0 tg,
    normalize_legacy tf lo_at rules amount date tfs t0 <> NCrash ->
    let t := apply_transforms tf tfs t0 in
    let lo := lo_at (t_desc t) (t_fields t) in
    (In tg (ntags (normalize_legacy tf lo_at rules amount date tfs t0)) <->
     exists r, In r rules /\ lmatch lo (py_upper (t_desc t)) amount date r = true /\
               In tg (ltags lo (py_upper (t_desc t)) amount date r)).
Proof. exact normalize_legacy_tags. Qed.
Print Assumptions c02_legacy_tags_union.

Theorem c02_legacy_tag_only_neutral :
  forall tf lo_at pre t post amount date tfs t0 m c s i m' c' s' i',
    l_category t = "" ->
    normalize_legacy tf lo_at (pre ++ t :: post) amount date tfs t0 = NRes m c s i ->
    normalize_legacy tf lo_at (pre ++ post) amount date tfs t0 = NRes m' c' s' i' ->
    m = m' /\ c = c' /\ s = s'.
Proof. exact normalize_legacy_tag_only_neutral. Qed.
Print Assumptions c02_legacy_tag_only_neutral.

(* ------------------------------------------------------------------------------------------------- *)
(* non-vacuity *)
Definition tr id cat tgs : rule :=
  {| r_id := id; r_name := "R"; r_match := "contains(""UBER"")"; r_category := cat; r_subcategory := ""; r_merchant := "R";
     r_tags := tgs; r_priority := 50; r_fields := [] |}.
Definition ex_o : oracle :=
  {| o_gv_crash := false; o_cond := fun r => if Nat.eqb (r_id r) 2 then RFalse else RTrue;
     o_dyn := fun _ e => if String.eqb e "source" then DScalar true " Amex " else
                         if String.eqb e "field.memo" then DScalar true "  " else
                         if String.eqb e "amount > 1" then DScalar false "False" else
                         if String.eqb e "xs" then DList [(true, "A b"); (false, ""); (true, "  "); (true, "c ")] else DErr;
     o_field := fun _ _ => FErr |}.
Definition ex_rules := [tr 0 "" [" Ride "; "{source}"; "{ }"]; tr 1 "Food" ["FOOD"; "{field.memo}"; "{nosuch}"; "ride"];
                        tr 2 "Never" ["never"]; tr 3 "" ["{xs}"; "{amount > 1}"; ""]].

Example c02_example_tags :
  match engine_match FirstMatch ex_rules ex_o, engine_match MostSpecific (rev ex_rules) ex_o with
  | Res a, Res b => tags a = ["ride"; "amex"; "food"; "a b"; "c"] /\ tags b = ["a b"; "c"; "food"; "ride"; "amex"] /\
                    category a = "Food" /\ category b = "Food" /\ map r_id (all_matching a) = [0; 1; 3]%nat
  | _, _ => False
  end.
Proof. vm_compute. repeat split; reflexivity. Qed.

Example c02_example_hypotheses :
  match engine_match FirstMatch [blank_rule] blank_oracle with Res r => tags r = ["alpha"] | Crash => False end /\
  is_cat f2_tag = false /\ is_match f2_oracle f2_tag = true /\ has_sub f2_tag = true /\ has_merchant f2_tag = true /\
  spec_of f2_netflix = (50, 1, 0, 7)%Z /\ spec_of f2_tag = (50, 1, 1, 7)%Z /\
  match engine_match MostSpecific [f2_netflix; f2_tag] f2_oracle, engine_match MostSpecific [f2_netflix] f2_oracle with
  | Res a, Res b => (merchant a, category a, subcategory a) = ("Big tag", "Subs", "Zed") /\
                    (merchant b, category b, subcategory b) = ("Netflix", "Subs", "Streaming")
  | _, _ => False
  end.
Proof. vm_compute. repeat split; reflexivity. Qed.
