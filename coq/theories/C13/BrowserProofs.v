(* C13/BrowserProofs.v — proofs about the browser's recomputed totals (C13/Browser.v). *)
From Coq Require Import String List Bool ZArith Lia.
From Tally Require Import Lib.Str Lib.NumOps Gen.ClassificationPy Gen.ClassificationJs C06.Model C06.Proofs C13.Proofs C13.Browser.
Import ListNotations.
Open Scope Z_scope.

(* the translated JS and Python classification agree key by key (from c13's equivalence, at Z) *)
Lemma js_py_bucket e U jk pk :
  In (jk, pk) key_pairs ->
  dget (Js.categorizeAmount z_ops e U) jk 0 = dget (Py.categorize_amount z_ops e U) pk 0.
Proof.
  intros Hin. pose proof (C13.Proofs.categorize_equiv z_ops e U) as H.
  unfold buckets, py_keys, js_keys in H. cbn [map] in H. change (nzero z_ops) with 0 in H.
  injection H as H1 H2 H3 H4 H5 H6.
  unfold key_pairs in Hin. cbn [In] in Hin.
  repeat (destruct Hin as [Hin|Hin]; [injection Hin as <- <-; symmetry; assumption|]). contradiction.
Qed.

Lemma pk_in_all jk pk : In (jk, pk) key_pairs -> In pk all_keys.
Proof.
  unfold key_pairs, all_keys. cbn [In]. intros H.
  repeat (destruct H as [H|H]; [injection H as <- <-; tauto|]). contradiction.
Qed.

Lemma has_tag_has tg w : has_tag tg w = has tg w.
Proof. reflexivity. Qed.

Lemma abs_effective t : Z.abs (effective t) = Z.abs (amount t).
Proof. rewrite effective_spec. destruct (_ || _)%bool; [apply Z.abs_involutive|reflexivity]. Qed.

Lemma bucket_of_effective t U :
  cls (tags_or_empty t) = cls U -> bucket_of (effective t) U = bucket_of (amount t) (tags_or_empty t).
Proof.
  rewrite effective_spec. unfold cls, bucket_of, has_tag, has. intros H.
  destruct (mem "income" (map lower (or_nil (tags_or_empty t)))), (mem "investment" (map lower (or_nil (tags_or_empty t)))),
           (mem "transfer" (map lower (or_nil (tags_or_empty t)))), (mem "income" (map lower (or_nil U))),
           (mem "investment" (map lower (or_nil U))), (mem "transfer" (map lower (or_nil U)));
    try discriminate H; cbn [orb]; reflexivity.
Qed.

(* the browser's bucket for a transaction whose class equals its merchant's class is the command line's bucket *)
Lemma js_b_py_b ts t jk pk :
  In (jk, pk) key_pairs -> cls (tags_or_empty t) = cls (union_tags ts) -> js_b jk ts t = py_b pk t.
Proof.
  intros Hin Hc. unfold js_b, py_b. rewrite (js_py_bucket _ _ jk pk Hin).
  fold (cat_of (effective t) (union_tags ts)). fold (cat_of (amount t) (tags_or_empty t)).
  rewrite !categorize_table by (eapply pk_in_all; eassumption).
  rewrite bucket_of_effective by assumption. rewrite abs_effective. reflexivity.
Qed.

Lemma vis_sum_ext f g (ts : mtxns) :
  (forall vt, In vt ts -> f (snd vt) = g (snd vt)) -> vis_sum f ts = vis_sum g ts.
Proof.
  induction ts as [|vt ts IH]; intros H; [reflexivity|]. cbn [vis_sum fold_right].
  fold (vis_sum f ts). fold (vis_sum g ts). rewrite IH by (intros; apply H; right; assumption).
  rewrite (H vt) by (left; reflexivity). reflexivity.
Qed.

Definition homogeneous (ms : list mtxns) : Prop :=
  forall ts, In ts ms -> forall vt, In vt ts -> cls (tags_or_empty (snd vt)) = cls (union_tags ts).

Lemma homogeneous_b_spec ms : homogeneous_b ms = true <-> homogeneous ms.
Proof.
  unfold homogeneous_b, homogeneous. rewrite forallb_forall. split.
  - intros H ts Hts vt Hvt. specialize (H ts Hts). rewrite forallb_forall in H. apply Nat.eqb_eq. now apply H.
  - intros H ts Hts. rewrite forallb_forall. intros vt Hvt. apply Nat.eqb_eq. now apply H.
Qed.

Lemma homogeneous_tail ts ms : homogeneous (ts :: ms) -> homogeneous ms.
Proof. intros H ts' Hin. apply H. right; assumption. Qed.

Lemma buckets_agree ms jk pk :
  In (jk, pk) key_pairs -> homogeneous ms -> browser_bucket jk ms = cli_bucket pk ms.
Proof.
  intros Hin. induction ms as [|ts ms IH]; intros H; [reflexivity|].
  cbn [browser_bucket cli_bucket fold_right]. fold (browser_bucket jk ms). fold (cli_bucket pk ms).
  rewrite IH by (eapply homogeneous_tail; eassumption). f_equal.
  apply vis_sum_ext. intros vt Hvt. apply js_b_py_b; [assumption|]. apply (H ts); [left; reflexivity|assumption].
Qed.

Lemma net_agree ms : homogeneous ms -> browser_net ms = cli_net ms.
Proof.
  intros H. unfold browser_net, cli_net.
  rewrite (buckets_agree ms "income" "income"), (buckets_agree ms "spending" "spending"),
          (buckets_agree ms "credits" "credits") by (try assumption; unfold key_pairs; cbn [In]; tauto).
  reflexivity.
Qed.

(* a non-special transaction contributes amount = spending - credits; a special one contributes to neither *)
Lemma spend_minus_cred t :
  py_b "spending" t - py_b "credits" t = if Nat.eqb (cls (tags_or_empty t)) 0 then amount t else 0.
Proof.
  unfold py_b. fold (cat_of (amount t) (tags_or_empty t)).
  rewrite !categorize_table by (unfold all_keys; cbn [In]; tauto).
  unfold bucket_of, cls, has_tag, has.
  destruct (mem "income" (map lower (or_nil (tags_or_empty t)))), (mem "investment" (map lower (or_nil (tags_or_empty t)))),
           (mem "transfer" (map lower (or_nil (tags_or_empty t))));
    cbn; try reflexivity; destruct (Z.ltb_spec 0 (amount t)); cbn; lia.
Qed.

Lemma excluded_cls U : Js.isExcludedFromSpending z_ops U = negb (Nat.eqb (cls U) 0).
Proof.
  unfold Js.isExcludedFromSpending, Js.EXCLUDED_FROM_SPENDING, Js.getTagsLower, cls, has_tag.
  change (lower_fn z_ops) with lower. cbn [existsb].
  change Js.INCOME_TAG with "income"%string. change Js.TRANSFER_TAG with "transfer"%string.
  change Js.INVESTMENT_TAG with "investment"%string.
  destruct (mem "income" (map lower (or_nil U))), (mem "investment" (map lower (or_nil U))),
           (mem "transfer" (map lower (or_nil U))); reflexivity.
Qed.

Lemma effective_plain t : cls (tags_or_empty t) = 0%nat -> effective t = amount t.
Proof.
  rewrite effective_spec. unfold cls, has_tag, has.
  destruct (mem "income" (map lower (or_nil (tags_or_empty t)))), (mem "investment" (map lower (or_nil (tags_or_empty t))));
    cbn; try discriminate; reflexivity.
Qed.

Lemma vis_sum_sub f g (ts : mtxns) : vis_sum f ts - vis_sum g ts = vis_sum (fun t => f t - g t) ts.
Proof.
  induction ts as [|[v t] ts IH]; [reflexivity|]. cbn [vis_sum fold_right fst snd].
  fold (vis_sum f ts). fold (vis_sum g ts). fold (vis_sum (fun t => f t - g t) ts). destruct v; lia.
Qed.

Lemma vis_sum_zero f (ts : mtxns) : (forall vt, In vt ts -> f (snd vt) = 0) -> vis_sum f ts = 0.
Proof.
  induction ts as [|vt ts IH]; intros H; [reflexivity|]. cbn [vis_sum fold_right]. fold (vis_sum f ts).
  rewrite IH by (intros; apply H; right; assumption). rewrite (H vt) by (left; reflexivity). destruct (fst vt); reflexivity.
Qed.

Lemma grand_total_agree ms :
  homogeneous ms -> grand_total ms = cli_bucket "spending" ms - cli_bucket "credits" ms.
Proof.
  induction ms as [|ts ms IH]; intros H; [reflexivity|].
  cbn [grand_total cli_bucket fold_right]. fold (grand_total ms). fold (cli_bucket "spending" ms). fold (cli_bucket "credits" ms).
  rewrite IH by (eapply homogeneous_tail; eassumption).
  assert (Hd : vis_sum (py_b "spending") ts - vis_sum (py_b "credits") ts
               = if Nat.eqb (cls (union_tags ts)) 0 then vis_sum effective ts else 0).
  { rewrite vis_sum_sub. destruct (Nat.eqb (cls (union_tags ts)) 0) eqn:E.
    - apply vis_sum_ext. intros vt Hvt. rewrite spend_minus_cred.
      rewrite (H ts (or_introl eq_refl) vt Hvt), E. symmetry. apply effective_plain.
      rewrite (H ts (or_introl eq_refl) vt Hvt). now apply Nat.eqb_eq.
    - apply vis_sum_zero. intros vt Hvt. rewrite spend_minus_cred.
      rewrite (H ts (or_introl eq_refl) vt Hvt), E. reflexivity. }
  rewrite excluded_cls. destruct (Nat.eqb (cls (union_tags ts)) 0); cbn [negb] in *; lia.
Qed.

(* What the browser computes, unconditionally: the command-line classification of the RE-TAGGED transactions
   (every transaction carrying its merchant's tag union and its effective amount). *)
Definition retag (ts : mtxns) : mtxns :=
  map (fun vt => (fst vt, {| amount := effective (snd vt); tags := union_tags ts; merchant := merchant (snd vt);
                             category := category (snd vt); subcategory := subcategory (snd vt); month := month (snd vt) |})) ts.

Lemma vis_sum_retag f g (ts : mtxns) (U : mtxns) :
  (forall vt, In vt ts ->
     f (snd vt) = g {| amount := effective (snd vt); tags := union_tags U; merchant := merchant (snd vt);
                       category := category (snd vt); subcategory := subcategory (snd vt); month := month (snd vt) |}) ->
  vis_sum f ts = vis_sum g (map (fun vt => (fst vt, {| amount := effective (snd vt); tags := union_tags U; merchant := merchant (snd vt);
                             category := category (snd vt); subcategory := subcategory (snd vt); month := month (snd vt) |})) ts).
Proof.
  induction ts as [|vt ts IH]; intros H; [reflexivity|]. cbn [vis_sum fold_right map fst snd].
  fold (vis_sum f ts).
  change (fold_right (fun (vt0 : bool * txn) (acc : Z) => if fst vt0 then g (snd vt0) + acc else acc) 0 ?l) with (vis_sum g l).
  rewrite <- IH by (intros; apply H; right; assumption). rewrite (H vt) by (left; reflexivity). reflexivity.
Qed.

Lemma browser_is_cli_of_retagged ms jk pk :
  In (jk, pk) key_pairs -> browser_bucket jk ms = cli_bucket pk (map retag ms).
Proof.
  intros Hin. induction ms as [|ts ms IH]; [reflexivity|].
  cbn [browser_bucket cli_bucket fold_right map]. fold (browser_bucket jk ms). fold (cli_bucket pk (map retag ms)).
  rewrite IH. f_equal. unfold retag. apply vis_sum_retag. intros vt _.
  unfold js_b, py_b. cbn [amount tags]. unfold tags_or_empty. cbn [tags union_tags].
  apply js_py_bucket; assumption.
Qed.

(* ---- the full statement and its refutation -------------------------------------------------------------------- *)
Definition browser_totals_statement : Prop :=
  forall ms jk pk, In (jk, pk) key_pairs -> browser_bucket jk ms = cli_bucket pk ms.

Definition T a tg m := {| amount := a; tags := tg; merchant := m; category := "C"; subcategory := "S"; month := "2025-01" |}.
(* one merchant, a purchase and a payment received that a rule tagged "income" *)
Definition witness : list mtxns := [[(true, T 6400 (Some []) "Venmo"); (true, T (-12800) (Some ["income"%string]) "Venmo")]].

Lemma witness_differs :
  browser_bucket "income" witness = 19200 /\ cli_bucket "income" witness = 12800 /\
  browser_bucket "spending" witness = 0 /\ cli_bucket "spending" witness = 6400.
Proof. vm_compute. repeat split. Qed.

Lemma browser_totals_refuted : ~ browser_totals_statement.
Proof.
  intros H. specialize (H witness "income" "income")%string.
  assert (Hin : In ("income", "income")%string key_pairs) by (unfold key_pairs; cbn [In]; tauto).
  specialize (H Hin). destruct witness_differs as (A & B & _). rewrite A, B in H. discriminate H.
Qed.

(* non-vacuity: a homogeneous example with all classes present and a hidden transaction *)
Definition ex_homog : list mtxns :=
  [[(true, T 6400 (Some ["Food"%string]) "Cafe"); (false, T (-640) (Some []) "Cafe")];
   [(true, T (-12800) (Some ["Income"%string]) "Job"); (true, T 640 (Some ["income"; "bonus"]%string) "Job")];
   [(true, T (-3200) (Some ["transfer"%string]) "Bank"); (true, T 3200 (Some ["TRANSFER"%string]) "Bank")];
   [(true, T 100 (Some ["investment"; "transfer"]%string) "Broker")]].
Lemma ex_homog_ok : homogeneous_b ex_homog = true /\ browser_figures ex_homog = [13440; 100; 3200; 3200; 6400; 0; 6; 7040; 6400].
Proof. vm_compute. split; reflexivity. Qed.
