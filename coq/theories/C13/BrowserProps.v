(* C13 (consequence clause) — "totals recomputed in the browser when filtering agree with the totals tally prints".
   ms : the merchants of the embedded data, each a list of (passes the active filters?, transaction); any filter. *)
From Coq Require Import String List Bool ZArith.
From Tally Require Import Lib.Str Lib.NumOps C06.Model C13.Browser C13.BrowserProofs.
Import ListNotations.
Open Scope Z_scope.

(* FULL STATEMENT: for every data set and every filter, each of the six totals the browser recomputes equals the
   command-line total of the visible transactions. It is FALSE of the faithful model (known finding
   C13/browser-classifies-by-merchant-tags): the browser classifies every transaction by its MERCHANT's tag union. *)
Theorem c13_browser_totals_refuted : ~ browser_totals_statement.
Proof. exact browser_totals_refuted. Qed.
Print Assumptions c13_browser_totals_refuted.

(* PROVED PART: whenever every transaction falls in the same special-tag class as its merchant's tag union (in
   particular whenever tags are assigned per merchant), all six totals, the net figure and the grand total agree,
   for every filter. Missing for the full statement: merchants whose transactions differ in class. *)
Theorem c13_browser_totals_partial :
  forall ms, homogeneous_b ms = true ->
    (forall jk pk, In (jk, pk) key_pairs -> browser_bucket jk ms = cli_bucket pk ms) /\
    browser_net ms = cli_net ms /\
    grand_total ms = cli_bucket "spending" ms - cli_bucket "credits" ms.
Proof.
  intros ms H. apply homogeneous_b_spec in H.
  split; [intros jk pk Hin; exact (buckets_agree ms jk pk Hin H)|].
  split; [exact (net_agree ms H)|exact (grand_total_agree ms H)].
Qed.
Print Assumptions c13_browser_totals_partial.

(* WHAT THE BROWSER COMPUTES, unconditionally: the command-line classification of the re-tagged transactions
   (each carrying its merchant's tag union and its effective amount). *)
Theorem c13_browser_is_cli_of_retagged :
  forall ms jk pk, In (jk, pk) key_pairs -> browser_bucket jk ms = cli_bucket pk (map retag ms).
Proof. exact browser_is_cli_of_retagged. Qed.
Print Assumptions c13_browser_is_cli_of_retagged.

Example c13_browser_nonvacuous :
  homogeneous_b ex_homog = true /\ browser_figures ex_homog = [13440; 100; 3200; 3200; 6400; 0; 6; 7040; 6400].
Proof. exact ex_homog_ok. Qed.
