(* C13/Proofs.v — the translated Python and JavaScript classification blocks compute the
   same buckets, exclusion decision and cash-flow, for every numeric structure (hence for
   IEEE doubles) and every lower-casing function. *)
From Coq Require Import String List Bool PrimFloat.
From Tally Require Import Lib.Str Lib.NumOps Gen.ClassificationPy Gen.ClassificationJs.
Import ListNotations.
Open Scope string_scope.

Module Py := ClassificationPy.
Module Js := ClassificationJs.

Definition py_keys := ["income"; "investment"; "transfer_in"; "transfer_out"; "spending"; "credits"].
Definition js_keys := ["income"; "investment"; "transferIn"; "transferOut"; "spending"; "credits"].
Definition buckets {num} (z : num) (keys : list string) (d : dict num) : list num :=
  map (fun k => dget d k z) keys.

Lemma existsb_mem_swap (a b : list string) :
  existsb (fun x => mem x b) a = existsb (fun y => mem y a) b.
Proof.
  apply eq_true_iff_eq. rewrite !existsb_exists.
  split; intros [x [Hin Hm]]; exists x; rewrite mem_In in *; tauto.
Qed.

Lemma tags_lower_equiv {num} (O : numops num) tags :
  Py.get_tags_lower O tags = Js.getTagsLower O tags.
Proof. reflexivity. Qed.

Lemma categorize_equiv {num} (O : numops num) amount tags :
  buckets (nzero O) py_keys (Py.categorize_amount O amount tags)
  = buckets (nzero O) js_keys (Js.categorizeAmount O amount tags).
Proof.
  unfold Py.categorize_amount, Js.categorizeAmount.
  rewrite tags_lower_equiv.
  change Js.INCOME_TAG with Py.INCOME_TAG.
  change Js.INVESTMENT_TAG with Py.INVESTMENT_TAG.
  change Js.TRANSFER_TAG with Py.TRANSFER_TAG.
  destruct (mem Py.INCOME_TAG (Js.getTagsLower O tags)); [reflexivity|].
  destruct (mem Py.INVESTMENT_TAG (Js.getTagsLower O tags)); [reflexivity|].
  destruct (mem Py.TRANSFER_TAG (Js.getTagsLower O tags));
    destruct (ngt0 O amount); reflexivity.
Qed.

(* The key sets are exactly the six buckets on both sides (nothing else is stored). *)
Lemma categorize_keys {num} (O : numops num) amount tags :
  map fst (Py.categorize_amount O amount tags) = py_keys /\
  map fst (Js.categorizeAmount O amount tags) = js_keys.
Proof.
  unfold Py.categorize_amount, Js.categorizeAmount.
  rewrite tags_lower_equiv.
  change Js.INCOME_TAG with Py.INCOME_TAG.
  change Js.INVESTMENT_TAG with Py.INVESTMENT_TAG.
  change Js.TRANSFER_TAG with Py.TRANSFER_TAG.
  destruct (mem Py.INCOME_TAG (Js.getTagsLower O tags)); [split; reflexivity|].
  destruct (mem Py.INVESTMENT_TAG (Js.getTagsLower O tags)); [split; reflexivity|].
  destruct (mem Py.TRANSFER_TAG (Js.getTagsLower O tags));
    destruct (ngt0 O amount); split; reflexivity.
Qed.

Lemma excluded_equiv {num} (O : numops num) tags :
  Py.is_excluded_from_spending O tags = Js.isExcludedFromSpending O tags.
Proof.
  unfold Py.is_excluded_from_spending, Js.isExcludedFromSpending, inter_nonempty.
  rewrite tags_lower_equiv. apply existsb_mem_swap.
Qed.

Lemma is_income_equiv {num} (O : numops num) tags : Py.is_income O tags = Js.isIncome O tags.
Proof. reflexivity. Qed.
Lemma is_transfer_equiv {num} (O : numops num) tags : Py.is_transfer O tags = Js.isTransfer O tags.
Proof. reflexivity. Qed.
Lemma is_investment_equiv {num} (O : numops num) tags : Py.is_investment O tags = Js.isInvestment O tags.
Proof. reflexivity. Qed.
Lemma cash_flow_equiv {num} (O : numops num) i s c :
  Py.calculate_cash_flow O i s c = Js.calculateCashFlow O i s c.
Proof. reflexivity. Qed.

(* IEEE-754 binary64 instance: Python float and JS number. *)
Definition float_ops (lower : string -> string) : numops float := {|
  nzero := 0%float; nabs := PrimFloat.abs;
  ngt0 := fun x => PrimFloat.ltb 0 x; nlt0 := fun x => PrimFloat.ltb x 0;
  nge0 := fun x => PrimFloat.leb 0 x; nle0 := fun x => PrimFloat.leb x 0;
  nadd := PrimFloat.add; nsub := PrimFloat.sub; lower_fn := lower |}.

(* non-vacuity: a concrete call with mixed-case special tag and a negative amount *)
Example categorize_example :
  buckets 0%float py_keys (Py.categorize_amount (float_ops lower) (-12.5)%float (Some ["Food"; "TRANSFER"]))
  = [0; 0; 0; 12.5; 0; 0]%float.
Proof. vm_compute. reflexivity. Qed.
