(* C13 — the report's in-browser classification equals the command-line classification.
   Both programs are regenerated from /repo on every run (Gen/ClassificationPy.v from
   classification.py, Gen/ClassificationJs.v from spending_report.js). *)
From Coq Require Import String List Bool PrimFloat.
From Tally Require Import Lib.Str Lib.NumOps C13.Proofs.
Import ListNotations.

(* every amount (any IEEE double: -0.0, NaN, infinities) and every tag list, incl. missing *)
Theorem c13_categorize_equiv :
  forall (lower : string -> string) (amount : float) (tags : option (list string)),
    buckets 0%float py_keys (Py.categorize_amount (float_ops lower) amount tags)
    = buckets 0%float js_keys (Js.categorizeAmount (float_ops lower) amount tags).
Proof. intros; exact (categorize_equiv _ _ _). Qed.
Print Assumptions c13_categorize_equiv.

(* ... and over any other numeric structure whatsoever *)
Theorem c13_categorize_equiv_generic :
  forall num (O : numops num) amount tags,
    buckets (nzero O) py_keys (Py.categorize_amount O amount tags)
    = buckets (nzero O) js_keys (Js.categorizeAmount O amount tags).
Proof. intros; exact (categorize_equiv _ _ _). Qed.
Print Assumptions c13_categorize_equiv_generic.

Theorem c13_only_six_buckets :
  forall num (O : numops num) amount tags,
    map fst (Py.categorize_amount O amount tags) = py_keys /\
    map fst (Js.categorizeAmount O amount tags) = js_keys.
Proof. intros; exact (categorize_keys _ _ _). Qed.
Print Assumptions c13_only_six_buckets.

Theorem c13_excluded_equiv :
  forall num (O : numops num) tags,
    Py.is_excluded_from_spending O tags = Js.isExcludedFromSpending O tags.
Proof. intros; exact (excluded_equiv _ _). Qed.
Print Assumptions c13_excluded_equiv.

Theorem c13_is_income_equiv :
  forall num (O : numops num) tags, Py.is_income O tags = Js.isIncome O tags.
Proof. intros; exact (is_income_equiv _ _). Qed.
Print Assumptions c13_is_income_equiv.
Theorem c13_is_transfer_equiv :
  forall num (O : numops num) tags, Py.is_transfer O tags = Js.isTransfer O tags.
Proof. intros; exact (is_transfer_equiv _ _). Qed.
Print Assumptions c13_is_transfer_equiv.
Theorem c13_is_investment_equiv :
  forall num (O : numops num) tags, Py.is_investment O tags = Js.isInvestment O tags.
Proof. intros; exact (is_investment_equiv _ _). Qed.
Print Assumptions c13_is_investment_equiv.

Theorem c13_cash_flow_equiv :
  forall (lower : string -> string) (i s c : float),
    Py.calculate_cash_flow (float_ops lower) i s c = Js.calculateCashFlow (float_ops lower) i s c.
Proof. intros; exact (cash_flow_equiv _ _ _ _). Qed.
Print Assumptions c13_cash_flow_equiv.
