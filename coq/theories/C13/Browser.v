(* C13/Browser.v — hand model of what the report application recomputes in the browser (spending_report.js:
   filteredCategoryView -> filteredViewTotals / grandTotal) from the data report.py embeds, next to what the
   command line computes for the same transactions. Money in exact integer ticks (as C06). The classification
   leaves are the TRANSLATED ones (Gen/ClassificationJs.v for the browser, Gen/ClassificationPy.v for the CLI).
   Tied to the real application code by harness/c13_app.js (the whole spending_report.js run under node). *)
From Coq Require Import String List Bool ZArith.
From Tally Require Import Lib.Str Lib.NumOps Gen.ClassificationPy Gen.ClassificationJs C06.Model.
Import ListNotations.
Open Scope Z_scope.
Module Js := ClassificationJs.

(* One merchant entry of the embedded data: its transactions in input order, each with a flag saying whether it
   passes the active filters. report.py embeds per transaction the EFFECTIVE amount (normalize_amount of the
   original amount and the transaction's own tags) and per merchant the UNION of its transactions' tags. *)
Definition mtxns := list (bool * txn).
Definition union_tags (ts : mtxns) : option (list string) :=
  Some (flat_map (fun vt : bool * txn => or_nil (tags (snd vt))) ts).

(* bucket k that the browser adds for transaction t of merchant ts: categorizeAmount(txn.amount, merchant.tags) *)
Definition js_b (k : string) (ts : mtxns) (t : txn) : Z :=
  dget (Js.categorizeAmount z_ops (effective t) (union_tags ts)) k 0.
(* bucket k that the command line adds for t: categorize_amount(original amount, the transaction's own tags) *)
Definition py_b (k : string) (t : txn) : Z :=
  dget (Py.categorize_amount z_ops (amount t) (tags_or_empty t)) k 0.

Definition vis_sum (f : txn -> Z) (ts : mtxns) : Z :=
  fold_right (fun (vt : bool * txn) acc => if fst vt then f (snd vt) + acc else acc) 0 ts.

(* filteredViewTotals: for every visible transaction of every merchant, add categorizeAmount(...) bucket by bucket *)
Definition browser_bucket (k : string) (ms : list mtxns) : Z :=
  fold_right (fun ts acc => vis_sum (js_b k ts) ts + acc) 0 ms.
Definition cli_bucket (k : string) (ms : list mtxns) : Z :=
  fold_right (fun ts acc => vis_sum (py_b k) ts + acc) 0 ms.
Definition visible_count (ms : list mtxns) : Z :=
  fold_right (fun ts acc => vis_sum (fun _ => 1) ts + acc) 0 ms.

(* the card's "net": cash flow when there is income, else net spending *)
Definition browser_net (ms : list mtxns) : Z :=
  let i := browser_bucket "income" ms in let s := browser_bucket "spending" ms in let c := browser_bucket "credits" ms in
  if 0 <? i then Js.calculateCashFlow z_ops i s c else s - c.
Definition cli_net (ms : list mtxns) : Z :=
  let i := cli_bucket "income" ms in let s := cli_bucket "spending" ms in let c := cli_bucket "credits" ms in
  if 0 <? i then Py.calculate_cash_flow z_ops i s c else s - c.

(* grandTotal: merchants whose tags are not excluded contribute the sum of their visible (effective) amounts *)
Definition grand_total (ms : list mtxns) : Z :=
  fold_right (fun ts acc => if Js.isExcludedFromSpending z_ops (union_tags ts) then acc
                            else vis_sum effective ts + acc) 0 ms.

Definition key_pairs : list (string * string) :=
  [("income", "income"); ("investment", "investment"); ("transferIn", "transfer_in");
   ("transferOut", "transfer_out"); ("spending", "spending"); ("credits", "credits")]%string.

(* all figures of one evaluation, in the order the harness compares them *)
Definition browser_figures (ms : list mtxns) : list Z :=
  map (fun kp => browser_bucket (fst kp) ms) key_pairs ++ [visible_count ms; browser_net ms; grand_total ms].
Definition cli_figures (ms : list mtxns) : list Z :=
  map (fun kp => cli_bucket (snd kp) ms) key_pairs ++ [visible_count ms; cli_net ms].

(* the special-tag class of a tag list (precedence income > investment > transfer) *)
Definition has_tag (tg : option (list string)) (w : string) : bool := mem w (map lower (or_nil tg)).
Definition cls (tg : option (list string)) : nat :=
  if has_tag tg "income" then 1 else if has_tag tg "investment" then 2 else if has_tag tg "transfer" then 3 else 0.
(* every transaction falls in the same class as its merchant's tag union *)
Definition homogeneous_b (ms : list mtxns) : bool :=
  forallb (fun ts => forallb (fun vt : bool * txn => Nat.eqb (cls (tags_or_empty (snd vt))) (cls (union_tags ts))) ts) ms.
