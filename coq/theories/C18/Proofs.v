(* C18/Proofs.v — lemmas for C18/Props.v.
   Part 1 (characters): split/strip/token matcher on a rendered arrangement = the arrangement's kinds.
   Part 2 (tokens): the column loop on kinds; duplicates; the final validation.
   Part 3: inspect's suggestion is the rendering of an arrangement; auto-detect yields distinct columns. *)
From Coq Require Import String Ascii List Bool NArith Arith Lia.
From Tally Require Import Lib.Str Gen.C18Keywords C18.Model C18.Spec.
Import ListNotations.
Open Scope string_scope.

(* ------------------------------------------------------------------ strings ------------- *)
Lemma sapp_assoc (a b c : string) : (a ++ b) ++ c = a ++ (b ++ c).
Proof. induction a as [|x a IH]; simpl; [reflexivity|now rewrite IH]. Qed.
Lemma sapp_nil_r (a : string) : a ++ "" = a.
Proof. induction a as [|x a IH]; simpl; [reflexivity|now rewrite IH]. Qed.
Lemma sall_app p a b : sall p (a ++ b) = (sall p a && sall p b)%bool.
Proof. induction a as [|x a IH]; simpl; [reflexivity|]. now rewrite IH, andb_assoc. Qed.
Lemma sall_impl (p q : ascii -> bool) s : (forall c, p c = true -> q c = true) -> sall p s = true -> sall q s = true.
Proof.
  intros Hpq. induction s as [|x s IH]; simpl; [reflexivity|].
  intros H. apply andb_true_iff in H as [Hx Hs]. now rewrite (Hpq _ Hx), IH.
Qed.

Definition nocomma (c : ascii) : bool := negb (Ascii.eqb c ch_comma).

Lemma ascii_cases (P : ascii -> Prop) :
  (forall b0 b1 b2 b3 b4 b5 b6 b7, P (Ascii b0 b1 b2 b3 b4 b5 b6 b7)) -> forall c, P c.
Proof. intros H [b0 b1 b2 b3 b4 b5 b6 b7]. apply H. Qed.

Ltac all_ascii c := destruct c as [[] [] [] [] [] [] [] []].

Lemma lower_upper_char c : lower_char (upper_char c) = lower_char c.
Proof. all_ascii c; reflexivity. Qed.
Lemma is_word_upper_char c : is_word (upper_char c) = is_word c.
Proof. all_ascii c; reflexivity. Qed.
Lemma word_not_special c : is_word c = true ->
  Ascii.eqb c ch_minus = false /\ Ascii.eqb c ch_plus = false /\ Ascii.eqb c ch_comma = false /\
  Ascii.eqb c ch_star = false /\ Ascii.eqb c ch_rbrace = false /\ Ascii.eqb c ch_colon = false.
Proof. all_ascii c; intros H; try discriminate H; repeat split; reflexivity. Qed.
Lemma ws_not_comma c : is_ws c = true -> nocomma c = true.
Proof. all_ascii c; intros H; try discriminate H; reflexivity. Qed.

(* ------------------------------------------------------------------ split(',') ---------- *)
Lemma split_comma_nonnil s : split_comma s <> [].
Proof.
  destruct s as [|c r]; simpl; [discriminate|].
  destruct (Ascii.eqb c ch_comma); [discriminate|]. destruct (split_comma r); discriminate.
Qed.

Lemma split_comma_nocomma s : sall nocomma s = true -> split_comma s = [s].
Proof.
  induction s as [|c r IH]; simpl; [reflexivity|].
  unfold nocomma at 1. intros H. apply andb_true_iff in H as [Hc Hr].
  destruct (Ascii.eqb c ch_comma); [discriminate|]. now rewrite (IH Hr).
Qed.

Lemma split_comma_app s r : sall nocomma s = true ->
  split_comma (s ++ String ch_comma r) = s :: split_comma r.
Proof.
  induction s as [|c s IH]; simpl.
  - reflexivity.
  - unfold nocomma at 1. intros H. apply andb_true_iff in H as [Hc Hs].
    destruct (Ascii.eqb c ch_comma); [discriminate|]. now rewrite (IH Hs).
Qed.

(* ------------------------------------------------------------------ strip --------------- *)
Lemma lstrip_ws_app w s : sall is_ws w = true -> lstrip (w ++ s) = lstrip s.
Proof.
  induction w as [|c w IH]; simpl; [reflexivity|].
  intros H. apply andb_true_iff in H as [Hc Hw]. now rewrite Hc, IH.
Qed.
Lemma rstrip_ws w : sall is_ws w = true -> rstrip w = "".
Proof.
  induction w as [|c w IH]; simpl; [reflexivity|].
  intros H. apply andb_true_iff in H as [Hc Hw]. now rewrite (IH Hw), Hc.
Qed.
Lemma rstrip_core b w : sall is_ws w = true -> rstrip (b ++ String ch_rbrace w) = b ++ String ch_rbrace "".
Proof.
  intros Hw. induction b as [|c b IH]; simpl.
  - now rewrite (rstrip_ws _ Hw).
  - rewrite IH. destruct b; reflexivity.
Qed.
Lemma strip_token lead body trail :
  sall is_ws lead = true -> sall is_ws trail = true ->
  strip (lead ++ String ch_lbrace (body ++ String ch_rbrace trail)) = String ch_lbrace (body ++ String ch_rbrace "").
Proof.
  intros Hl Ht. unfold strip. rewrite (lstrip_ws_app _ _ Hl).
  change (lstrip (String ch_lbrace (body ++ String ch_rbrace trail))) with (String ch_lbrace (body ++ String ch_rbrace trail)).
  change (String ch_lbrace (body ++ String ch_rbrace trail)) with ((String ch_lbrace body) ++ String ch_rbrace trail).
  now rewrite (rstrip_core _ _ Ht).
Qed.

(* ------------------------------------------------------------------ the token matcher --- *)
Lemma span_app p a c r : sall p a = true -> p c = false -> span p (a ++ String c r) = (a, String c r).
Proof.
  intros Ha Hc. induction a as [|x a IH]; simpl.
  - now rewrite Hc.
  - simpl in Ha. apply andb_true_iff in Ha as [Hx Ha]. now rewrite Hx, (IH Ha).
Qed.

(* a name as the matcher sees it: a star, or a non-empty run of word characters *)
Definition nm_ok (nm : string) : Prop := nm = "*" \/ (nm <> "" /\ sall is_word nm = true).

Lemma take_sign_render sg nm rest : nm_ok nm -> take_sign (sign_str sg ++ (nm ++ rest)) = (sg, nm ++ rest).
Proof.
  intros Hn. destruct sg; simpl; try reflexivity.
  destruct Hn as [->|[Hne Hw]]; [reflexivity|].
  destruct nm as [|c nm]; [contradiction|]. simpl in Hw |- *. apply andb_true_iff in Hw as [Hc _].
  destruct (word_not_special c Hc) as (-> & -> & _). reflexivity.
Qed.

Lemma take_name_render nm c rest : nm_ok nm -> is_word c = false ->
  take_name (nm ++ String c rest) = Some (nm, String c rest).
Proof.
  intros [->|[Hne Hw]] Hc.
  - reflexivity.
  - destruct nm as [|x nm]; [contradiction|]. pose proof Hw as Hw'. simpl in Hw'.
    apply andb_true_iff in Hw' as [Hx _].
    change ((String x nm) ++ String c rest) with (String x (nm ++ String c rest)).
    unfold take_name. rewrite Hx.
    change (String x (nm ++ String c rest)) with ((String x nm) ++ String c rest).
    now rewrite (span_app _ _ _ _ Hw Hc).
Qed.

Lemma spec_ok_norbrace f : spec_ok f = true ->
  f <> "" /\ sall (fun x => negb (Ascii.eqb x ch_rbrace)) f = true /\ sall nocomma f = true.
Proof.
  unfold spec_ok. intros H. apply andb_true_iff in H as [Hne Hs]. split; [|split].
  - destruct f; [discriminate|discriminate].
  - eapply sall_impl; [|exact Hs]. intros c Hc. now apply andb_true_iff in Hc as [-> _].
  - eapply sall_impl; [|exact Hs]. intros c Hc. unfold nocomma. now apply andb_true_iff in Hc as [_ ->].
Qed.

Lemma take_spec_render spec : ospec_ok spec = true ->
  take_spec (spec_str spec ++ String ch_rbrace "") = Some spec.
Proof.
  destruct spec as [f|]; simpl; [|reflexivity].
  intros H. destruct (spec_ok_norbrace _ H) as (Hne & Hs & _).
  change (Ascii.eqb ch_colon ch_rbrace) with false. change (Ascii.eqb ch_colon ch_colon) with true. cbv iota.
  rewrite (span_app _ f ch_rbrace "" Hs eq_refl).
  destruct f; [contradiction|reflexivity].
Qed.

Lemma spec_str_head spec : exists c rest, spec_str spec ++ String ch_rbrace "" = String c rest /\ is_word c = false.
Proof. destruct spec; simpl; eexists; eexists; split; reflexivity. Qed.

Lemma match_field_render sg nm spec : nm_ok nm -> ospec_ok spec = true ->
  match_field (String ch_lbrace ((sign_str sg ++ (nm ++ spec_str spec)) ++ String ch_rbrace ""))
  = Some (sg, nm, spec).
Proof.
  intros Hn Hs. unfold match_field. change (Ascii.eqb ch_lbrace ch_lbrace) with true. cbv iota.
  rewrite sapp_assoc, sapp_assoc. rewrite (take_sign_render _ _ _ Hn).
  destruct (spec_str_head spec) as (c & rest & E & Hc).
  pose proof (take_spec_render spec Hs) as Hts. rewrite E in *.
  rewrite (take_name_render _ _ _ Hn Hc). now rewrite Hts.
Qed.

(* ------------------------------------------------------------------ names and masks ----- *)
Lemma lower_apply_mask m s : lower (apply_mask m s) = lower s.
Proof.
  unfold lower. revert m. induction s as [|c s IH]; intros [|b m]; simpl; try reflexivity.
  rewrite IH. destruct b; [now rewrite lower_upper_char|reflexivity].
Qed.
Lemma word_apply_mask m s : sall is_word (apply_mask m s) = sall is_word s.
Proof.
  revert m. induction s as [|c s IH]; intros [|b m]; simpl; try reflexivity.
  rewrite IH. destruct b; [now rewrite is_word_upper_char|reflexivity].
Qed.
Lemma apply_mask_nonempty m s : s <> "" -> apply_mask m s <> "".
Proof. destruct s; [contradiction|]. destruct m; discriminate. Qed.
Lemma apply_mask_empty m : apply_mask m "" = "".
Proof. destruct m; reflexivity. Qed.
Lemma apply_mask_star m : apply_mask m "*" = "*".
Proof. destruct m as [|b m]; [reflexivity|]. simpl. rewrite apply_mask_empty. destruct b; reflexivity. Qed.

Lemma name_ok_facts n : name_ok n = true ->
  n <> "" /\ sall is_word n = true /\ lower n = n /\ is_reserved n = false.
Proof.
  unfold name_ok. intros H. repeat (apply andb_true_iff in H as [H ?]).
  repeat split.
  - destruct n; [discriminate|discriminate].
  - assumption.
  - now apply String.eqb_eq.
  - now apply negb_true_iff.
Qed.

Definition kind_ok (k : kind) : bool := match k with KDate f => ospec_ok f | KCustom n => name_ok n | _ => true end.

Lemma col_ok_facts k sp : col_ok (k, sp) = true ->
  sall is_ws (sp_lead sp) = true /\ sall is_ws (sp_trail sp) = true /\ ospec_ok (sp_spec sp) = true /\ kind_ok k = true.
Proof. unfold col_ok, kind_ok. intros H. repeat (apply andb_true_iff in H as [H ?]). auto. Qed.

Lemma name_str_ok k sp : kind_ok k = true -> nm_ok (name_str k sp) /\ lower (name_str k sp) = base_name k sp.
Proof.
  intros Hk. unfold name_str. rewrite lower_apply_mask.
  destruct k as [f| |sg| |n|]; simpl base_name.
  1-4: (split; [right; split; [apply apply_mask_nonempty; discriminate|rewrite word_apply_mask; reflexivity]|reflexivity]).
  - destruct (name_ok_facts _ Hk) as (Hne & Hw & Hl & _). split; [|exact Hl].
    right. split; [now apply apply_mask_nonempty|now rewrite word_apply_mask].
  - destruct (sp_star sp).
    + rewrite apply_mask_star. split; [now left|reflexivity].
    + split; [right; split; [apply apply_mask_nonempty; discriminate|rewrite word_apply_mask; reflexivity]|reflexivity].
Qed.

Lemma tok_spec_ok k sp : col_ok (k, sp) = true -> ospec_ok (tok_spec k sp) = true.
Proof.
  intros H. destruct (col_ok_facts _ _ H) as (_ & _ & Hs & Hk).
  destruct k; simpl; auto.
Qed.

Lemma strip_render_tok k sp : col_ok (k, sp) = true ->
  strip (render_tok (k, sp)) = String ch_lbrace (tok_body k sp ++ String ch_rbrace "").
Proof.
  intros H. destruct (col_ok_facts _ _ H) as (Hl & Ht & _ & _).
  unfold render_tok. now apply strip_token.
Qed.

Lemma match_render_tok k sp : col_ok (k, sp) = true ->
  match_field (strip (render_tok (k, sp))) = Some (tok_sign k sp, name_str k sp, tok_spec k sp).
Proof.
  intros H. rewrite (strip_render_tok _ _ H). unfold tok_body.
  destruct (col_ok_facts _ _ H) as (_ & _ & _ & Hk).
  apply match_field_render; [apply (name_str_ok k sp Hk)|now apply tok_spec_ok].
Qed.

(* a rendered token contains no comma *)
Lemma nm_ok_nocomma nm : nm_ok nm -> sall nocomma nm = true.
Proof.
  intros [->|[_ Hw]]; [reflexivity|].
  eapply sall_impl; [|exact Hw]. intros c Hc. unfold nocomma.
  destruct (word_not_special c Hc) as (_ & _ & -> & _). reflexivity.
Qed.
Lemma render_tok_nocomma k sp : col_ok (k, sp) = true -> sall nocomma (render_tok (k, sp)) = true.
Proof.
  intros H. destruct (col_ok_facts _ _ H) as (Hl & Ht & Hs & Hk).
  unfold render_tok, tok_body. rewrite sall_app. apply andb_true_iff. split.
  { eapply sall_impl; [apply ws_not_comma|exact Hl]. }
  change (String ch_lbrace ?x) with ("{" ++ x). rewrite !sall_app.
  assert (Hsp : sall nocomma (spec_str (tok_spec k sp)) = true).
  { pose proof (tok_spec_ok _ _ H) as Ho. destruct (tok_spec k sp) as [f|]; [|reflexivity].
    simpl. now destruct (spec_ok_norbrace _ Ho) as (_ & _ & ->). }
  rewrite Hsp, (nm_ok_nocomma _ (proj1 (name_str_ok k sp Hk))).
  assert (Hsg : sall nocomma (sign_str (tok_sign k sp)) = true) by (destruct (tok_sign k sp); reflexivity).
  rewrite Hsg. simpl. eapply sall_impl; [apply ws_not_comma|exact Ht].
Qed.

Lemma split_render cols : cols <> [] -> forallb col_ok cols = true ->
  split_comma (render cols) = map render_tok cols.
Proof.
  induction cols as [|[k sp] r IH]; [contradiction|].
  intros _ H. simpl in H. apply andb_true_iff in H as [Hc Hr].
  destruct r as [|c2 r].
  - change (render [(k, sp)]) with (render_tok (k, sp)).
    now rewrite (split_comma_nocomma _ (render_tok_nocomma _ _ Hc)).
  - change (render ((k, sp) :: c2 :: r)) with (render_tok (k, sp) ++ String ch_comma (render (c2 :: r))).
    rewrite (split_comma_app _ _ (render_tok_nocomma _ _ Hc)).
    rewrite IH; [reflexivity|discriminate|exact Hr].
Qed.

(* ------------------------------------------------------------------ the loop on kinds --- *)
(* what one column does to the parser state, read off the kind (no strings involved) *)
Definition step_kind (idx : nat) (k : kind) (s : pstate) : res pstate :=
  match k with
  | KSkip => Ok {| fp := fp s; cc := cc s; dfmt := dfmt s; neg := neg s; absv := absv s; skp := skp s ++ [idx] |}
  | KCustom n =>
      if mem n (keys (cc s)) then Err (EDuplicate n idx)
      else Ok {| fp := fp s; cc := cc s ++ [(n, idx)]; dfmt := dfmt s; neg := neg s; absv := absv s; skp := skp s |}
  | KDate f =>
      if mem "date" (keys (fp s)) then Err (EDuplicate "date" idx)
      else Ok {| fp := fp s ++ [("date", idx)]; cc := cc s;
                 dfmt := match f with Some x => x | None => dfmt s end;
                 neg := neg s; absv := absv s; skp := skp s |}
  | KAmount sg =>
      if mem "amount" (keys (fp s)) then Err (EDuplicate "amount" idx)
      else Ok {| fp := fp s ++ [("amount", idx)]; cc := cc s; dfmt := dfmt s;
                 neg := match sg with SgMinus => true | _ => neg s end;
                 absv := match sg with SgPlus => true | _ => absv s end; skp := skp s |}
  | KDesc =>
      if mem "description" (keys (fp s)) then Err (EDuplicate "description" idx)
      else Ok {| fp := fp s ++ [("description", idx)]; cc := cc s; dfmt := dfmt s; neg := neg s; absv := absv s;
                 skp := skp s |}
  | KLoc =>
      if mem "location" (keys (fp s)) then Err (EDuplicate "location" idx)
      else Ok {| fp := fp s ++ [("location", idx)]; cc := cc s; dfmt := dfmt s; neg := neg s; absv := absv s;
                 skp := skp s |}
  end.

(* facts about the translated RESERVED_NAMES that the proofs use; re-checked on every regeneration *)
Lemma reserved_facts :
  is_reserved "date" = true /\ is_reserved "amount" = true /\ is_reserved "description" = true /\
  is_reserved "location" = true /\ is_reserved "_" = true.
Proof. vm_compute. repeat split; reflexivity. Qed.

Lemma not_reserved_neq n m : is_reserved n = false -> is_reserved m = true -> String.eqb n m = false.
Proof. intros Hn Hm. destruct (String.eqb_spec n m) as [->|]; [congruence|reflexivity]. Qed.

Lemma step_render idx k sp s : col_ok (k, sp) = true ->
  step idx (strip (render_tok (k, sp))) s = step_kind idx k s.
Proof.
  intros H. unfold step. rewrite (match_render_tok _ _ H).
  destruct (col_ok_facts _ _ H) as (_ & _ & Hs & Hk).
  destruct (name_str_ok k sp Hk) as [_ ->].
  destruct reserved_facts as (Rd & Ra & Rde & Rl & Ru).
  destruct k as [f| |sg| |n|]; simpl base_name; simpl tok_sign; simpl tok_spec.
  - change (is_skip_name "date") with false. rewrite Rd. cbv iota. simpl.
    destruct (mem "date" (keys (fp s))); [reflexivity|]. destruct f; reflexivity.
  - change (is_skip_name "description") with false. rewrite Rde. cbv iota. simpl.
    destruct (mem "description" (keys (fp s))); reflexivity.
  - change (is_skip_name "amount") with false. rewrite Ra. cbv iota. simpl.
    destruct (mem "amount" (keys (fp s))); [reflexivity|]. destruct sg; reflexivity.
  - change (is_skip_name "location") with false. rewrite Rl. cbv iota. simpl.
    destruct (mem "location" (keys (fp s))); reflexivity.
  - destruct (name_ok_facts _ Hk) as (Hne & Hw & _ & Hr).
    assert (Hsk : is_skip_name n = false).
    { unfold is_skip_name. rewrite (not_reserved_neq _ _ Hr Ru). simpl.
      destruct (String.eqb_spec n "*") as [->|]; [discriminate Hw|reflexivity]. }
    rewrite Hsk, Hr. cbv iota. simpl. reflexivity.
  - assert (Hsk : is_skip_name (if sp_star sp then "*" else "_") = true) by (destruct (sp_star sp); reflexivity).
    rewrite Hsk. reflexivity.
Qed.

Fixpoint run_kinds (idx : nat) (ks : list kind) (s : pstate) : res pstate :=
  match ks with
  | [] => Ok s
  | k :: r => match step_kind idx k s with Ok s' => run_kinds (S idx) r s' | Err e => Err e end
  end.

Lemma run_render cols : forall idx s, forallb col_ok cols = true ->
  run idx (map render_tok cols) s = run_kinds idx (map fst cols) s.
Proof.
  induction cols as [|[k sp] r IH]; intros idx s H; [reflexivity|].
  simpl in H. apply andb_true_iff in H as [Hc Hr].
  simpl. rewrite (step_render _ _ _ _ Hc). destruct (step_kind idx k s); [now apply IH|reflexivity].
Qed.

Section WithFormatter.
Variable fparse : string -> option (list (string * string)).

Lemma parse_render cols tmpl : cols <> [] -> forallb col_ok cols = true ->
  parse_format fparse (render cols) tmpl =
  match run_kinds 0 (map fst cols) st0 with Ok s => finish fparse s tmpl | Err e => Err e end.
Proof.
  intros Hne H. unfold parse_format. now rewrite (split_render _ Hne H), (run_render _ _ _ H).
Qed.

(* ================================================================== part 2: kinds ======== *)
Open Scope list_scope.
Definition rkey (k : kind) : option string :=
  match k with KDate _ => Some "date" | KDesc => Some "description" | KAmount _ => Some "amount"
             | KLoc => Some "location" | _ => None end.
Definition ckey (k : kind) : option string := match k with KCustom n => Some n | _ => None end.
Definition skey (k : kind) : option string := match k with KSkip => Some "" | _ => None end.

Fixpoint pairs (kf : kind -> option string) (i : nat) (ks : list kind) : list (string * nat) :=
  match ks with
  | [] => []
  | k :: r => match kf k with Some n => (n, i) :: pairs kf (S i) r | None => pairs kf (S i) r end
  end.
Fixpoint fmt_of (ks : list kind) (d : string) : string :=
  match ks with [] => d | KDate (Some x) :: r => fmt_of r x | _ :: r => fmt_of r d end.
Fixpoint neg_of (ks : list kind) (b : bool) : bool :=
  match ks with [] => b | KAmount SgMinus :: r => neg_of r true | _ :: r => neg_of r b end.
Fixpoint abs_of (ks : list kind) (b : bool) : bool :=
  match ks with [] => b | KAmount SgPlus :: r => abs_of r true | _ :: r => abs_of r b end.

Definition final (i : nat) (ks : list kind) (s : pstate) : pstate :=
  {| fp := fp s ++ pairs rkey i ks; cc := cc s ++ pairs ckey i ks; dfmt := fmt_of ks (dfmt s);
     neg := neg_of ks (neg s); absv := abs_of ks (absv s); skp := skp s ++ map snd (pairs skey i ks) |}.

(* no name is registered twice, given the names already registered (fs: reserved, cs: custom) *)
Fixpoint dupfree (fs cs : list string) (ks : list kind) : bool :=
  match ks with
  | [] => true
  | k :: r => match rkey k, ckey k with
              | Some n, _ => negb (mem n fs) && dupfree (fs ++ [n]) cs r
              | None, Some n => negb (mem n cs) && dupfree fs (cs ++ [n]) r
              | None, None => dupfree fs cs r
              end
  end.

Lemma keys_app (a b : list (string * nat)) : keys (a ++ b) = keys a ++ keys b.
Proof. unfold keys. apply map_app. Qed.

Lemma run_kinds_spec ks : forall i s,
  match run_kinds i ks s with
  | Ok s' => dupfree (keys (fp s)) (keys (cc s)) ks = true /\ s' = final i ks s
  | Err _ => dupfree (keys (fp s)) (keys (cc s)) ks = false
  end.
Proof.
  induction ks as [|k r IH]; intros i s.
  - simpl. split; [reflexivity|]. destruct s; unfold final; simpl. now rewrite !app_nil_r.
  - destruct k as [f| |sg| |n|]; simpl run_kinds; unfold step_kind.
    + destruct (mem "date" (keys (fp s))) eqn:E; simpl dupfree; rewrite E; [reflexivity|].
      specialize (IH (S i) {| fp := fp s ++ [("date", i)]; cc := cc s;
                              dfmt := match f with Some x => x | None => dfmt s end;
                              neg := neg s; absv := absv s; skp := skp s |}).
      destruct (run_kinds (S i) r _); simpl fp in IH; simpl cc in IH; rewrite keys_app in IH; simpl keys in IH.
      * destruct IH as [-> ->]. split; [reflexivity|]. unfold final; simpl. rewrite <- !app_assoc. simpl.
        destruct f; reflexivity.
      * now rewrite IH.
    + destruct (mem "description" (keys (fp s))) eqn:E; simpl dupfree; rewrite E; [reflexivity|].
      specialize (IH (S i) {| fp := fp s ++ [("description", i)]; cc := cc s; dfmt := dfmt s;
                              neg := neg s; absv := absv s; skp := skp s |}).
      destruct (run_kinds (S i) r _); simpl fp in IH; simpl cc in IH; rewrite keys_app in IH; simpl keys in IH.
      * destruct IH as [-> ->]. split; [reflexivity|]. unfold final; simpl. now rewrite <- !app_assoc.
      * now rewrite IH.
    + destruct (mem "amount" (keys (fp s))) eqn:E; simpl dupfree; rewrite E; [reflexivity|].
      specialize (IH (S i) {| fp := fp s ++ [("amount", i)]; cc := cc s; dfmt := dfmt s;
                              neg := match sg with SgMinus => true | _ => neg s end;
                              absv := match sg with SgPlus => true | _ => absv s end; skp := skp s |}).
      destruct (run_kinds (S i) r _); simpl fp in IH; simpl cc in IH; rewrite keys_app in IH; simpl keys in IH.
      * destruct IH as [-> ->]. split; [reflexivity|]. unfold final; simpl. rewrite <- !app_assoc. simpl.
        destruct sg; reflexivity.
      * now rewrite IH.
    + destruct (mem "location" (keys (fp s))) eqn:E; simpl dupfree; rewrite E; [reflexivity|].
      specialize (IH (S i) {| fp := fp s ++ [("location", i)]; cc := cc s; dfmt := dfmt s;
                              neg := neg s; absv := absv s; skp := skp s |}).
      destruct (run_kinds (S i) r _); simpl fp in IH; simpl cc in IH; rewrite keys_app in IH; simpl keys in IH.
      * destruct IH as [-> ->]. split; [reflexivity|]. unfold final; simpl. now rewrite <- !app_assoc.
      * now rewrite IH.
    + destruct (mem n (keys (cc s))) eqn:E; simpl dupfree; rewrite E; [reflexivity|].
      specialize (IH (S i) {| fp := fp s; cc := cc s ++ [(n, i)]; dfmt := dfmt s;
                              neg := neg s; absv := absv s; skp := skp s |}).
      destruct (run_kinds (S i) r _); simpl fp in IH; simpl cc in IH; rewrite keys_app in IH; simpl keys in IH.
      * destruct IH as [-> ->]. split; [reflexivity|]. unfold final; simpl. now rewrite <- !app_assoc.
      * now rewrite IH.
    + specialize (IH (S i) {| fp := fp s; cc := cc s; dfmt := dfmt s; neg := neg s; absv := absv s;
                              skp := skp s ++ [i] |}).
      destruct (run_kinds (S i) r _); simpl fp in IH; simpl cc in IH; simpl dupfree.
      * destruct IH as [-> ->]. split; [reflexivity|]. unfold final; simpl. now rewrite <- !app_assoc.
      * exact IH.
Qed.

(* ---- where the registered pairs come from ---- *)
Lemma in_pairs kf n j : forall ks i,
  In (n, j) (pairs kf i ks) <-> i <= j /\ exists k, nth_error ks (j - i) = Some k /\ kf k = Some n.
Proof.
  induction ks as [|a ks IH]; intros i; simpl.
  - split; [contradiction|]. intros [_ [k [H _]]]. destruct (j - i); discriminate.
  - assert (Hgen : (S i <= j /\ exists k, nth_error ks (j - S i) = Some k /\ kf k = Some n) \/ (i = j /\ kf a = Some n)
                   <-> i <= j /\ exists k, nth_error (a :: ks) (j - i) = Some k /\ kf k = Some n).
    { split.
      - intros [[Hle [k [Hk Hn]]]|[-> Hn]].
        + split; [lia|]. exists k. replace (j - i) with (S (j - S i)) by lia. now split.
        + split; [lia|]. exists a. rewrite Nat.sub_diag. now split.
      - intros [Hle [k [Hk Hn]]]. destruct (Nat.eq_dec i j) as [->|Hne].
        + right. rewrite Nat.sub_diag in Hk. simpl in Hk. injection Hk as ->. now split.
        + left. split; [lia|]. exists k. replace (j - i) with (S (j - S i)) in Hk by lia. now split. }
    rewrite <- Hgen. destruct (kf a) as [m|] eqn:E; simpl; rewrite IH.
    + split.
      * intros [H|H]; [right; injection H as -> ->; now split|now left].
      * intros [H|[-> H]]; [now right|left; now injection H as ->].
    + split; [now left|]. intros [H|[_ H]]; [exact H|discriminate].
Qed.

Lemma in_pairs0 kf n j ks :
  In (n, j) (pairs kf 0 ks) <-> exists k, nth_error ks j = Some k /\ kf k = Some n.
Proof.
  rewrite in_pairs, Nat.sub_0_r. split; [now intros [_ H]|]. intros H. split; [lia|exact H].
Qed.

Lemma lookup_in k d v : lookup k d = Some v -> In (k, v) d.
Proof.
  induction d as [|[k' v'] r IH]; simpl; [discriminate|].
  destruct (String.eqb_spec k k') as [->|]; [intros H; injection H as ->; now left|auto].
Qed.
Lemma lookup_none k d : lookup k d = None -> ~ In k (keys d).
Proof.
  induction d as [|[k' v'] r IH]; simpl; [auto|].
  destruct (String.eqb_spec k k') as [->|Hne]; [discriminate|].
  intros H [E|Hin]; [now subst|now apply IH].
Qed.
Lemma in_keys n (d : list (string * nat)) : In n (keys d) <-> exists j, In (n, j) d.
Proof.
  unfold keys. rewrite in_map_iff. split.
  - intros [[a b] [E H]]. simpl in E. subst. now exists b.
  - intros [j H]. now exists (n, j).
Qed.

(* ---- kinds, keys ---- *)
Definition customs_nonres (ks : list kind) : Prop := forall n, In (KCustom n) ks -> is_reserved n = false.

Lemma kind_cases k :
  (exists n, rkey k = Some n /\ ckey k = None /\ key k = Some n /\ is_reserved n = true) \/
  (exists n, k = KCustom n) \/ k = KSkip.
Proof.
  destruct reserved_facts as (Rd & Ra & Rde & Rl & _).
  destruct k; [left; exists "date"|left; exists "description"|left; exists "amount"|left; exists "location"
              |right; left; eexists; reflexivity|right; right; reflexivity]; repeat split; assumption.
Qed.

Lemma rkey_key k n : rkey k = Some n -> key k = Some n.
Proof. destruct k; simpl; congruence. Qed.
Lemma ckey_key k n : ckey k = Some n -> k = KCustom n.
Proof. destruct k; simpl; congruence. Qed.

Lemma nth_key_in ks : forall i k n, nth_error ks i = Some k -> key k = Some n -> In n (keylist ks).
Proof.
  induction ks as [|a ks IH]; intros [|i] k n H Hk; simpl in H; try discriminate.
  - injection H as ->. simpl. rewrite Hk. now left.
  - simpl. destruct (key a); [right|]; eapply IH; eauto.
Qed.
Lemma keylist_in_nth ks n : In n (keylist ks) -> exists i k, nth_error ks i = Some k /\ key k = Some n.
Proof.
  induction ks as [|a ks IH]; simpl; [contradiction|].
  destruct (key a) as [m|] eqn:E.
  - intros [->|H]; [exists 0, a; now split|].
    destruct (IH H) as (i & k & Hi & Hk). exists (S i), k. now split.
  - intros H. destruct (IH H) as (i & k & Hi & Hk). exists (S i), k. now split.
Qed.
Lemma keylist_in ks n : In n (keylist ks) -> exists k, In k ks /\ key k = Some n.
Proof.
  intros H. destruct (keylist_in_nth _ _ H) as (i & k & Hi & Hk). exists k. split; [|exact Hk].
  eapply nth_error_In; eauto.
Qed.
Lemma NoDup_keylist_tail a ks : NoDup (keylist (a :: ks)) -> NoDup (keylist ks).
Proof. simpl. destruct (key a); [intros H; now inversion H|auto]. Qed.

Lemma key_unique ks : NoDup (keylist ks) -> forall i j k k' n,
  nth_error ks i = Some k -> nth_error ks j = Some k' -> key k = Some n -> key k' = Some n -> i = j.
Proof.
  induction ks as [|a ks IH]; intros Hnd i j k k' n Hi Hj Hk Hk'.
  - destruct i; discriminate.
  - destruct i as [|i], j as [|j]; simpl in Hi, Hj.
    + reflexivity.
    + injection Hi as ->. exfalso. simpl in Hnd. rewrite Hk in Hnd. inversion Hnd as [|? ? Hn _]; subst.
      apply Hn. eapply nth_key_in; eauto.
    + injection Hj as ->. exfalso. simpl in Hnd. rewrite Hk' in Hnd. inversion Hnd as [|? ? Hn _]; subst.
      apply Hn. eapply nth_key_in; eauto.
    + f_equal. eapply (IH (NoDup_keylist_tail _ _ Hnd)); eauto.
Qed.

Lemma dupfree_spec ks : forall fs cs, customs_nonres ks ->
  (dupfree fs cs ks = true <->
   NoDup (keylist ks) /\ (forall k n, In k ks -> rkey k = Some n -> ~ In n fs)
   /\ (forall k n, In k ks -> ckey k = Some n -> ~ In n cs)).
Proof.
  induction ks as [|k r IH]; intros fs cs Hnr.
  - simpl. split; [|reflexivity]. intros _. split; [constructor|]. split; intros ? ? [].
  - assert (Hnr' : customs_nonres r) by (intros n Hn; apply Hnr; now right).
    destruct (kind_cases k) as [(n & Er & Ec & Ek & Eres)|[(n & ->)| -> ]].
    + simpl. rewrite Er, Ek. rewrite andb_true_iff, negb_true_iff, (IH _ _ Hnr'). split.
      * intros (Hm & Hnd & Hf & Hc). split; [|split].
        -- constructor; [|exact Hnd]. intros Hin. destruct (keylist_in _ _ Hin) as (k0 & Hk0 & Hkey).
           destruct (rkey k0) as [m|] eqn:Erk0.
           ++ pose proof (rkey_key _ _ Erk0) as E2. rewrite Hkey in E2. injection E2 as <-.
              apply (Hf _ _ Hk0 Erk0). apply in_or_app. right. now left.
           ++ destruct k0; simpl in Hkey, Erk0; try discriminate. injection Hkey as ->.
              rewrite (Hnr' _ Hk0) in Eres. discriminate.
        -- intros k0 m [ <- |Hin] Hrk.
           ++ rewrite Er in Hrk. injection Hrk as <-. intros Hin. apply mem_In in Hin. congruence.
           ++ intros Hm'. apply (Hf _ _ Hin Hrk). apply in_or_app. now left.
        -- intros k0 m [ <- |Hin] Hck; [congruence|]. eapply Hc; eauto.
      * intros (Hnd & Hf & Hc). inversion Hnd as [|? ? Hnotin Hnd']; subst. split; [|split; [exact Hnd'|split]].
        -- destruct (mem n fs) eqn:E; [|reflexivity]. apply mem_In in E. exfalso. eapply (Hf k n); [now left|exact Er|exact E].
        -- intros k0 m Hin Hrk Hm. apply in_app_or in Hm as [Hm|[ <- |[]]].
           ++ eapply (Hf k0 m); [right; exact Hin|exact Hrk|exact Hm].
           ++ apply Hnotin. destruct (In_nth_error _ _ Hin) as [i Hi]. eapply nth_key_in; eauto. now apply rkey_key.
        -- intros k0 m Hin Hck. eapply Hc; [right; exact Hin|exact Hck].
    + simpl. rewrite andb_true_iff, negb_true_iff, (IH _ _ Hnr'). split.
      * intros (Hm & Hnd & Hf & Hc). split; [|split].
        -- constructor; [|exact Hnd]. intros Hin. destruct (keylist_in _ _ Hin) as (k0 & Hk0 & Hkey).
           destruct (kind_cases k0) as [(m & Er0 & _ & Ek0 & Eres0)|[(m & ->)| -> ]].
           ++ rewrite Hkey in Ek0. injection Ek0 as <-. rewrite (Hnr n (or_introl eq_refl)) in Eres0. discriminate.
           ++ simpl in Hkey. injection Hkey as ->. apply (Hc (KCustom n) n Hk0 eq_refl). apply in_or_app. right. now left.
           ++ discriminate.
        -- intros k0 m [ <- |Hin] Hrk; [discriminate|]. eapply Hf; eauto.
        -- intros k0 m [ <- |Hin] Hck.
           ++ simpl in Hck. injection Hck as <-. intros Hin. apply mem_In in Hin. congruence.
           ++ intros Hm'. apply (Hc _ _ Hin Hck). apply in_or_app. now left.
      * intros (Hnd & Hf & Hc). inversion Hnd as [|? ? Hnotin Hnd']; subst. split; [|split; [exact Hnd'|split]].
        -- destruct (mem n cs) eqn:E; [|reflexivity]. apply mem_In in E. exfalso. eapply (Hc (KCustom n) n); [now left|reflexivity|exact E].
        -- intros k0 m Hin Hrk. eapply Hf; [right; exact Hin|exact Hrk].
        -- intros k0 m Hin Hck Hm. apply in_app_or in Hm as [Hm|[ <- |[]]].
           ++ eapply (Hc k0 m); [right; exact Hin|exact Hck|exact Hm].
           ++ apply Hnotin. apply ckey_key in Hck. subst k0.
              destruct (In_nth_error _ _ Hin) as [i Hi]. eapply nth_key_in; eauto.
    + simpl. rewrite (IH _ _ Hnr'). split.
      * intros (Hnd & Hf & Hc). split; [exact Hnd|]. split.
        -- intros k0 m [ <- |Hin] Hrk; [discriminate|]. eapply Hf; eauto.
        -- intros k0 m [ <- |Hin] Hck; [discriminate|]. eapply Hc; eauto.
      * intros (Hnd & Hf & Hc). split; [exact Hnd|]. split.
        -- intros k0 m Hin. apply Hf. now right.
        -- intros k0 m Hin. apply Hc. now right.
Qed.

Lemma dupfree_nodup ks : customs_nonres ks -> (dupfree [] [] ks = true <-> NoDup (keylist ks)).
Proof.
  intros Hnr. rewrite (dupfree_spec ks [] [] Hnr). split; [now intros [H _]|].
  intros H. split; [exact H|]. split; intros ? ? _ _ [].
Qed.

Lemma cols_customs_nonres cols : forallb col_ok cols = true -> customs_nonres (map fst cols).
Proof.
  intros H n Hin. apply in_map_iff in Hin as [[k sp] [E Hin]]. simpl in E. subst k.
  rewrite forallb_forall in H. specialize (H _ Hin).
  destruct (col_ok_facts _ _ H) as (_ & _ & _ & Hk). simpl in Hk.
  now destruct (name_ok_facts _ Hk) as (_ & _ & _ & ->).
Qed.

(* the loop on a rendered arrangement: succeeds exactly when no name repeats *)
Lemma run_kinds_nodup ks : customs_nonres ks -> NoDup (keylist ks) -> run_kinds 0 ks st0 = Ok (final 0 ks st0).
Proof.
  intros Hnr Hnd. pose proof (run_kinds_spec ks 0 st0) as H. apply (dupfree_nodup _ Hnr) in Hnd.
  simpl in H. destruct (run_kinds 0 ks st0); [now destruct H as [_ ->]|congruence].
Qed.
Lemma run_kinds_dup ks : customs_nonres ks -> ~ NoDup (keylist ks) -> exists e, run_kinds 0 ks st0 = Err e.
Proof.
  intros Hnr Hnd. pose proof (run_kinds_spec ks 0 st0) as H. simpl in H.
  destruct (run_kinds 0 ks st0); [|eauto]. destruct H as [H _]. now apply (dupfree_nodup _ Hnr) in H.
Qed.
Lemma run_kinds_ok_final ks s : run_kinds 0 ks st0 = Ok s -> s = final 0 ks st0.
Proof. intros E. pose proof (run_kinds_spec ks 0 st0) as H. rewrite E in H. now destruct H. Qed.

(* ---- the final validation ---- *)
Lemma first_missing_none refs have :
  first_missing refs have = None <-> forallb (fun r => mem r have) refs = true.
Proof.
  induction refs as [|r refs IH]; simpl; [tauto|].
  destruct (mem r have); simpl; [exact IH|]. split; discriminate.
Qed.
Lemma first_missing_some refs have r : In r refs -> ~ In r have -> exists m, first_missing refs have = Some m.
Proof.
  intros Hin Hnot. destruct (first_missing refs have) eqn:E; [eauto|].
  apply first_missing_none in E. rewrite forallb_forall in E. apply E in Hin. apply mem_In in Hin. contradiction.
Qed.

Lemma finish_ok s tmpl d a :
  (mem "description" (keys (fp s)) = true \/ (cc s <> [] /\ truthy tmpl = true)) ->
  check_template fparse tmpl (keys (if mem "description" (keys (fp s)) then [] else cc s)) = None ->
  lookup "date" (fp s) = Some d -> lookup "amount" (fp s) = Some a ->
  finish fparse s tmpl =
  Ok {| f_date := d; f_date_format := dfmt s; f_amount := a; f_desc := lookup "description" (fp s);
        f_custom := (if mem "description" (keys (fp s)) then [] else cc s); f_template := tmpl;
        f_extra := (if mem "description" (keys (fp s)) then cc s else []);
        f_loc := lookup "location" (fp s); f_neg := neg s; f_abs := absv s; f_skipped := skp s |}.
Proof.
  intros H1 H2 Hd Ha. unfold finish. rewrite Hd, Ha.
  destruct (mem "description" (keys (fp s))) eqn:Ehd; destruct (cc s) as [|p l] eqn:Ecc; simpl in H2 |- *.
  - now rewrite H2.
  - now rewrite H2.
  - destruct H1 as [H1|[H1 _]]; [discriminate|contradiction].
  - destruct H1 as [H1|[_ H1]]; [discriminate|]. rewrite H1. simpl. now rewrite H2.
Qed.

Lemma finish_nodesc s tmpl : mem "description" (keys (fp s)) = false -> cc s = [] -> finish fparse s tmpl = Err ENoDescription.
Proof. intros H1 H2. unfold finish. now rewrite H1, H2. Qed.

Lemma finish_missing s tmpl :
  lookup "date" (fp s) = None \/ lookup "amount" (fp s) = None -> exists e, finish fparse s tmpl = Err e.
Proof.
  intros H. unfold finish.
  destruct (negb (mem "description" (keys (fp s))) && _)%bool; [eauto|].
  destruct (_ && negb (truthy tmpl))%bool; [eauto|].
  destruct (check_template fparse tmpl _); [eauto|].
  destruct H as [-> | ->]; [eauto|]. destruct (lookup "date" (fp s)); eauto.
Qed.

Lemma finish_check_err s tmpl e :
  check_template fparse tmpl (keys (if mem "description" (keys (fp s)) then [] else cc s)) = Some e ->
  exists e', finish fparse s tmpl = Err e'.
Proof.
  intros H. unfold finish.
  destruct (mem "description" (keys (fp s))) eqn:Ehd; destruct (cc s) as [|p l] eqn:Ecc; simpl in *.
  - rewrite H. eauto.
  - rewrite H. eauto.
  - eauto.
  - destruct (truthy tmpl); simpl; [|eauto]. rewrite H. eauto.
Qed.

(* the scan finds every name the template looks up (for any library parser) *)
Lemma collect_in rec l names : collect rec l = Some names -> forall fld spec, In (fld, spec) l ->
  In (arg_name fld) names /\ (is_empty spec = false -> exists a, rec spec = Some a /\ incl a names).
Proof.
  revert names. induction l as [|[f0 s0] l IH]; intros names H fld spec Hin; [contradiction|].
  simpl in H.
  destruct (if is_empty s0 then Some [] else rec s0) as [a|] eqn:Ea; [|discriminate].
  destruct (collect rec l) as [b|] eqn:Eb; [|discriminate]. injection H as <-.
  destruct Hin as [E|Hin].
  - injection E as -> ->. split; [now left|]. intros Hs. rewrite Hs in Ea. exists a. split; [exact Ea|].
    intros x Hx. right. apply in_or_app. now left.
  - destruct (IH b eq_refl fld spec Hin) as [H1 H2]. split.
    + right. apply in_or_app. now right.
    + intros Hs. destruct (H2 Hs) as (a' & Ha' & Hincl). exists a'. split; [exact Ha'|].
      intros x Hx. right. apply in_or_app. right. now apply Hincl.
Qed.

Lemma tnames_complete : forall fuel t names, tnames fparse fuel t = Some names ->
  forall r, looks_up fparse t r -> In r names.
Proof.
  induction fuel as [|f IH]; intros t names H r Hl; [discriminate|].
  simpl in H. destruct (fparse t) as [fields|] eqn:Ef; [|discriminate].
  inversion Hl as [t' fields' fld spec Ef' Hin|t' fields' fld spec r' Ef' Hin Hne Hsub]; subst;
    rewrite Ef in Ef'; injection Ef' as <-; destruct (collect_in _ _ _ H _ _ Hin) as [H1 H2].
  - exact H1.
  - assert (Hs : is_empty spec = false) by (destruct spec; [contradiction|reflexivity]).
    destruct (H2 Hs) as (a & Ha & Hincl). apply Hincl. eapply IH; eauto.
Qed.

Lemma check_template_looks_up t r have :
  t <> "" -> looks_up fparse t r -> ~ In r have -> exists e, check_template fparse (Some t) have = Some e.
Proof.
  intros Hne Hl Hnot. unfold check_template.
  assert (Hs : is_empty t = false) by (destruct t; [contradiction|reflexivity]). rewrite Hs.
  destruct (template_names fparse t) as [names|] eqn:E; [|eauto].
  pose proof (tnames_complete _ _ _ E r Hl) as Hin.
  destruct (first_missing_some names have r Hin Hnot) as [m ->]. eauto.
Qed.

(* ---- the final state of a duplicate-free arrangement ---- *)
Lemma keys_pairs_ckey ks : forall i, keys (pairs ckey i ks) = cnames ks.
Proof. induction ks as [|a ks IH]; intros i; [reflexivity|]. destruct a; simpl; now rewrite IH. Qed.
Lemma mem_desc_pairs ks : forall i, mem "description" (keys (pairs rkey i ks)) = has_desc ks.
Proof. induction ks as [|a ks IH]; intros i; [reflexivity|]. destruct a; simpl; auto. Qed.
Lemma has_desc_in ks : has_desc ks = true <-> In KDesc ks.
Proof.
  unfold has_desc. rewrite existsb_exists. split.
  - intros [k [Hin Hk]]. destruct k; try discriminate. exact Hin.
  - intros H. exists KDesc. now split.
Qed.

Lemma lookup_rkey_inv ks n j : lookup n (pairs rkey 0 ks) = Some j -> exists k, nth_error ks j = Some k /\ rkey k = Some n.
Proof. intros H. apply lookup_in in H. now apply in_pairs0 in H. Qed.
Lemma lookup_rkey ks n i k : NoDup (keylist ks) -> nth_error ks i = Some k -> rkey k = Some n ->
  lookup n (pairs rkey 0 ks) = Some i.
Proof.
  intros Hnd Hi Hk. destruct (lookup n (pairs rkey 0 ks)) as [j|] eqn:E.
  - destruct (lookup_rkey_inv _ _ _ E) as (k' & Hj & Hk'). f_equal.
    eapply (key_unique ks Hnd j i k' k n); eauto using rkey_key.
  - exfalso. apply lookup_none in E. apply E. apply in_keys. exists i. apply in_pairs0. eauto.
Qed.

Lemma fmt_of_nodate ks : forall d, ~ In "date" (keylist ks) -> fmt_of ks d = d.
Proof.
  induction ks as [|a ks IH]; intros d H; [reflexivity|].
  destruct a as [[x|]| |sg| |n|]; simpl in H |- *; try (apply IH; tauto); exfalso; apply H; now left.
Qed.
Lemma fmt_of_date ks : NoDup (keylist ks) -> forall j f d, nth_error ks j = Some (KDate f) ->
  fmt_of ks d = match f with Some x => x | None => d end.
Proof.
  induction ks as [|a ks IH]; intros Hnd j f d Hj; [destruct j; discriminate|].
  destruct j as [|j]; simpl in Hj.
  - injection Hj as ->. simpl in Hnd. inversion Hnd as [|? ? Hn _]; subst.
    destruct f; simpl; now apply fmt_of_nodate.
  - assert (Hin : In "date" (keylist ks)) by (eapply nth_key_in; eauto; reflexivity).
    pose proof (NoDup_keylist_tail _ _ Hnd) as Hnd'.
    destruct a as [f'| |sg| |n|]; try (simpl; eapply IH; eauto).
    exfalso. simpl in Hnd. inversion Hnd; contradiction.
Qed.
Lemma sign_of_noamount ks : forall b, ~ In "amount" (keylist ks) -> neg_of ks b = b /\ abs_of ks b = b.
Proof.
  induction ks as [|a ks IH]; intros b H; [split; reflexivity|].
  destruct a as [f| |sg| |n|]; simpl in H |- *; try (apply IH; tauto); exfalso; apply H; now left.
Qed.
Lemma sign_of_amount ks : NoDup (keylist ks) -> forall j sg b1 b2, nth_error ks j = Some (KAmount sg) ->
  neg_of ks b1 = (match sg with SgMinus => true | _ => b1 end) /\
  abs_of ks b2 = (match sg with SgPlus => true | _ => b2 end).
Proof.
  induction ks as [|a ks IH]; intros Hnd j sg b1 b2 Hj; [destruct j; discriminate|].
  destruct j as [|j]; simpl in Hj.
  - injection Hj as ->. simpl in Hnd. inversion Hnd as [|? ? Hn _]; subst.
    destruct sg; simpl; split; now apply sign_of_noamount.
  - assert (Hin : In "amount" (keylist ks)) by (eapply nth_key_in; eauto; reflexivity).
    pose proof (NoDup_keylist_tail _ _ Hnd) as Hnd'.
    destruct a as [f'| |sg'| |n|]; try (simpl; eapply IH; eauto).
    exfalso. simpl in Hnd. inversion Hnd; contradiction.
Qed.

Lemma key_reserved_rkey ks k n : customs_nonres ks -> In k ks -> key k = Some n -> is_reserved n = true -> rkey k = Some n.
Proof.
  intros Hnr Hin Hk Hres. destruct k; simpl in *; try exact Hk; try discriminate.
  injection Hk as ->. rewrite (Hnr _ Hin) in Hres. discriminate.
Qed.

Lemma positions_kinds ks tmpl :
  customs_nonres ks -> NoDup (keylist ks) -> In "date" (keylist ks) -> In "amount" (keylist ks) ->
  template_okb fparse ks tmpl = true ->
  exists sp, finish fparse (final 0 ks st0) tmpl = Ok sp /\ maps_by_position ks tmpl sp.
Proof.
  intros Hnr Hnd Hd Ha Ht.
  destruct reserved_facts as (Rd & Ra & _).
  destruct (keylist_in_nth _ _ Hd) as (id & kd & Hid & Hkd).
  destruct (keylist_in_nth _ _ Ha) as (ia & ka & Hia & Hka).
  pose proof (key_reserved_rkey ks kd _ Hnr (nth_error_In _ _ Hid) Hkd Rd) as Hrd.
  pose proof (key_reserved_rkey ks ka _ Hnr (nth_error_In _ _ Hia) Hka Ra) as Hra.
  assert (Ekd : exists f, kd = KDate f) by (destruct kd; try discriminate; eauto).
  assert (Eka : exists sg, ka = KAmount sg) by (destruct ka; try discriminate; eauto).
  destruct Ekd as [f ->]. destruct Eka as [sg ->].
  pose proof (lookup_rkey ks _ _ _ Hnd Hid Hrd) as Ld.
  pose proof (lookup_rkey ks _ _ _ Hnd Hia Hra) as La.
  unfold template_okb in Ht. apply andb_true_iff in Ht as [Ht1 Ht2].
  set (S := final 0 ks st0).
  assert (Efp : fp S = pairs rkey 0 ks) by reflexivity.
  assert (Ecc : cc S = pairs ckey 0 ks) by reflexivity.
  assert (Ehd : mem "description" (keys (fp S)) = has_desc ks) by (rewrite Efp; apply mem_desc_pairs).
  eexists. split.
  - apply finish_ok with (d := id) (a := ia).
    + rewrite Ehd. apply orb_true_iff in Ht1 as [H|H]; [now left|right].
      apply andb_true_iff in H as [Hc Htr]. split; [|exact Htr].
      rewrite Ecc. intros E. pose proof (keys_pairs_ckey ks 0) as Hk. rewrite E in Hk. simpl in Hk.
      rewrite <- Hk in Hc. discriminate.
    + rewrite Ehd, Ecc. unfold check_template. destruct tmpl as [t|]; [|reflexivity].
      destruct (is_empty t); [reflexivity|]. simpl in Ht2.
      destruct (template_names fparse t) as [names|]; [|discriminate].
      apply first_missing_none in Ht2. unfold mode2_names in Ht2.
      assert (Ek : keys (if has_desc ks then [] else pairs ckey 0 ks) = (if has_desc ks then [] else cnames ks))
        by (destruct (has_desc ks); [reflexivity|apply keys_pairs_ckey]).
      rewrite Ek. now rewrite Ht2.
    + now rewrite Efp.
    + now rewrite Efp.
  - unfold maps_by_position. cbn [f_date f_date_format f_amount f_desc f_custom f_template f_extra f_loc f_neg f_abs f_skipped].
    rewrite Ehd, Efp, Ecc. repeat split.
    + exists f. split; [exact Hid|]. unfold S, final, st0. cbn [dfmt]. now rewrite (fmt_of_date ks Hnd _ _ _ Hid).
    + exists sg. split; [exact Hia|]. unfold S, final, st0. cbn [neg absv].
      destruct (sign_of_amount ks Hnd _ _ false false Hia) as [-> ->]. reflexivity.
    + intros H. destruct (lookup_rkey_inv _ _ _ H) as (k & Hk & Hr). destruct k; try discriminate. exact Hk.
    + intros H. eapply lookup_rkey; eauto.
    + intros H. destruct (lookup_rkey_inv _ _ _ H) as (k & Hk & Hr). destruct k; try discriminate. exact Hk.
    + intros H. eapply lookup_rkey; eauto.
    + intros H. assert (H' : In (n, i) (pairs ckey 0 ks)) by (destruct (has_desc ks); simpl in H; [exact H|now rewrite app_nil_r in H]).
      apply in_pairs0 in H' as (k & Hk & Hc). apply ckey_key in Hc. now subst.
    + intros H. assert (H' : In (n, i) (pairs ckey 0 ks)) by (apply in_pairs0; eexists; split; [exact H|reflexivity]).
      destruct (has_desc ks); simpl; [exact H'|now rewrite app_nil_r].
    + intros H. apply has_desc_in in H. now rewrite H.
    + intros H. destruct (has_desc ks) eqn:E; [|reflexivity]. apply has_desc_in in E. contradiction.
    + unfold S, final, st0. cbn [skp]. simpl. intros H. apply in_map_iff in H as [[n j] [E H]]. simpl in E. subst j.
      apply in_pairs0 in H as (k & Hk & Hs). destruct k; try discriminate. exact Hk.
    + unfold S, final, st0. cbn [skp]. simpl. intros H. apply in_map_iff. exists (""%string, i). split; [reflexivity|].
      apply in_pairs0. eexists; split; [exact H|reflexivity].
Qed.

(* ---- the theorems on rendered arrangements ---- *)
Lemma positions cols tmpl :
  forallb col_ok cols = true ->
  NoDup (keylist (map fst cols)) -> In "date" (keylist (map fst cols)) -> In "amount" (keylist (map fst cols)) ->
  template_okb fparse (map fst cols) tmpl = true ->
  exists sp, parse_format fparse (render cols) tmpl = Ok sp /\ maps_by_position (map fst cols) tmpl sp.
Proof.
  intros Hok Hnd Hd Ha Ht.
  assert (Hne : cols <> []) by (destruct cols; [contradiction Hd|discriminate]).
  pose proof (cols_customs_nonres _ Hok) as Hnr.
  rewrite (parse_render _ _ Hne Hok), (run_kinds_nodup _ Hnr Hnd). now apply positions_kinds.
Qed.

Lemma parse_empty tmpl : exists e, parse_format fparse "" tmpl = Err e.
Proof. eexists. reflexivity. Qed.

Lemma cnames_nil ks : (forall n, ~ In (KCustom n) ks) -> cnames ks = [].
Proof.
  induction ks as [|a ks IH]; intros H; [reflexivity|].
  destruct a; simpl; try (apply IH; intros n Hn; apply (H n); now right).
  exfalso. eapply H. now left.
Qed.

Lemma lookup_rkey_none ks n : ~ In n (keylist ks) -> lookup n (pairs rkey 0 ks) = None.
Proof.
  intros H. destruct (lookup n (pairs rkey 0 ks)) eqn:E; [|reflexivity]. exfalso. apply H.
  destruct (lookup_rkey_inv _ _ _ E) as (k & Hk & Hr). eapply nth_key_in; eauto using rkey_key.
Qed.

Lemma reject_missing cols tmpl :
  forallb col_ok cols = true ->
  (~ In "date" (keylist (map fst cols)) \/ ~ In "amount" (keylist (map fst cols)) \/
   (~ In KDesc (map fst cols) /\ forall n, ~ In (KCustom n) (map fst cols))) ->
  exists e, parse_format fparse (render cols) tmpl = Err e.
Proof.
  intros Hok H. destruct cols as [|c cols']; [apply parse_empty|].
  rewrite (parse_render (c :: cols') _ ltac:(discriminate) Hok).
  destruct (run_kinds 0 _ st0) as [s|e] eqn:E; [|eauto].
  apply run_kinds_ok_final in E. subst s. set (ks := map fst (c :: cols')) in *.
  destruct H as [H|[H|[H1 H2]]].
  - apply finish_missing. left. now apply lookup_rkey_none.
  - apply finish_missing. right. now apply lookup_rkey_none.
  - eexists. apply finish_nodesc.
    + change (fp (final 0 ks st0)) with (pairs rkey 0 ks). rewrite mem_desc_pairs.
      destruct (has_desc ks) eqn:Eh; [|reflexivity]. apply has_desc_in in Eh. contradiction.
    + change (cc (final 0 ks st0)) with (pairs ckey 0 ks).
      pose proof (keys_pairs_ckey ks 0) as Hk. rewrite (cnames_nil _ H2) in Hk.
      destruct (pairs ckey 0 ks); [reflexivity|discriminate].
Qed.

Lemma reject_duplicate cols tmpl :
  forallb col_ok cols = true -> ~ NoDup (keylist (map fst cols)) ->
  exists e, parse_format fparse (render cols) tmpl = Err e.
Proof.
  intros Hok H. destruct cols as [|c cols']; [apply parse_empty|].
  rewrite (parse_render (c :: cols') _ ltac:(discriminate) Hok).
  destruct (run_kinds_dup _ (cols_customs_nonres _ Hok) H) as [e ->]. eauto.
Qed.

Lemma reject_uncaptured cols t r :
  forallb col_ok cols = true -> t <> "" -> looks_up fparse t r -> ~ In r (mode2_names (map fst cols)) ->
  exists e, parse_format fparse (render cols) (Some t) = Err e.
Proof.
  intros Hok Hne Hl Hnot. destruct cols as [|c cols']; [apply parse_empty|].
  rewrite (parse_render (c :: cols') _ ltac:(discriminate) Hok).
  destruct (run_kinds 0 _ st0) as [s|e] eqn:E; [|eauto].
  apply run_kinds_ok_final in E. subst s. set (ks := map fst (c :: cols')) in *.
  assert (Ek : keys (if mem "description" (keys (fp (final 0 ks st0))) then [] else cc (final 0 ks st0)) = mode2_names ks).
  { change (fp (final 0 ks st0)) with (pairs rkey 0 ks). change (cc (final 0 ks st0)) with (pairs ckey 0 ks).
    rewrite mem_desc_pairs. unfold mode2_names. destruct (has_desc ks); [reflexivity|apply keys_pairs_ckey]. }
  destruct (check_template_looks_up t r _ Hne Hl Hnot) as [e He].
  eapply finish_check_err. rewrite Ek. exact He.
Qed.

(* a non-empty template that the library's parser rejects is rejected *)
Lemma reject_malformed_template cols t :
  forallb col_ok cols = true -> t <> "" -> fparse t = None ->
  exists e, parse_format fparse (render cols) (Some t) = Err e.
Proof.
  intros Hok Hne Hf. destruct cols as [|c cols']; [apply parse_empty|].
  rewrite (parse_render (c :: cols') _ ltac:(discriminate) Hok).
  destruct (run_kinds 0 _ st0) as [s|e] eqn:E; [|eauto].
  eapply finish_check_err with (e := EBadTemplate). unfold check_template.
  assert (Hs : is_empty t = false) by (destruct t; [contradiction|reflexivity]). rewrite Hs.
  unfold template_names. simpl. now rewrite Hf.
Qed.

(* ================================================================== part 3: inspect ====== *)
Lemma suggest_col_tok d i :
  suggest_col d i = String ch_lbrace (tok_body (kind_at d i) plain ++ String ch_rbrace "")%string.
Proof.
  unfold suggest_col, kind_at.
  destruct (Nat.eqb i (a_date d)); [reflexivity|]. destruct (Nat.eqb i (a_desc d)); [reflexivity|].
  destruct (Nat.eqb i (a_amount d)); [reflexivity|]. destruct (opt_eqb (a_loc d) i); reflexivity.
Qed.

Definition cols_of (d : detected) : list (kind * spelling) :=
  (kind_at d 0, plain) :: map (fun i => (kind_at d i, spaced)) (seq 1 (max_col d)).

Lemma render_tok_plain k : render_tok (k, plain) = String ch_lbrace (tok_body k plain ++ String ch_rbrace "")%string.
Proof. reflexivity. Qed.
Lemma render_tok_spaced k :
  render_tok (k, spaced) = String " "%char (String ch_lbrace (tok_body k plain ++ String ch_rbrace ""))%string.
Proof. reflexivity. Qed.

Lemma join_render_tail d l : l <> [] ->
  render (map (fun i => (kind_at d i, spaced)) l) = String " "%char (join_cs (map (suggest_col d) l)).
Proof.
  induction l as [|i l IH]; [contradiction|]. intros _. destruct l as [|j l].
  - change (render (map (fun i => (kind_at d i, spaced)) [i])) with (render_tok (kind_at d i, spaced)).
    change (join_cs (map (suggest_col d) [i])) with (suggest_col d i).
    now rewrite render_tok_spaced, suggest_col_tok.
  - change (render (map (fun i => (kind_at d i, spaced)) (i :: j :: l)))
      with (render_tok (kind_at d i, spaced) ++ String ch_comma (render (map (fun i => (kind_at d i, spaced)) (j :: l))))%string.
    rewrite IH by discriminate.
    change (join_cs (map (suggest_col d) (i :: j :: l)))
      with (suggest_col d i ++ ", " ++ join_cs (map (suggest_col d) (j :: l)))%string.
    rewrite render_tok_spaced, suggest_col_tok. reflexivity.
Qed.

Lemma suggest_render d : suggest d = render (cols_of d).
Proof.
  unfold suggest, cols_of. change (seq 0 (S (max_col d))) with (0 :: seq 1 (max_col d)).
  destruct (max_col d) as [|m].
  - cbn [seq map]. change (render [(kind_at d 0, plain)]) with (render_tok (kind_at d 0, plain)).
    change (join_cs [suggest_col d 0]) with (suggest_col d 0).
    now rewrite render_tok_plain, suggest_col_tok.
  - change (seq 1 (S m)) with (1 :: seq 2 m).
    change (render ((kind_at d 0, plain) :: map (fun i => (kind_at d i, spaced)) (1 :: seq 2 m)))
      with (render_tok (kind_at d 0, plain) ++ String ch_comma (render (map (fun i => (kind_at d i, spaced)) (1 :: seq 2 m))))%string.
    rewrite join_render_tail by discriminate.
    change (join_cs (map (suggest_col d) (0 :: 1 :: seq 2 m)))
      with (suggest_col d 0 ++ ", " ++ join_cs (map (suggest_col d) (1 :: seq 2 m)))%string.
    rewrite render_tok_plain, suggest_col_tok. reflexivity.
Qed.

Lemma kinds_of_cols d : map fst (cols_of d) = map (kind_at d) (seq 0 (S (max_col d))).
Proof. unfold cols_of. simpl. f_equal. rewrite map_map. reflexivity. Qed.

Lemma nth_map_seq {A} (f : nat -> A) : forall n s i,
  nth_error (map f (seq s n)) i = if Nat.ltb i n then Some (f (s + i)) else None.
Proof.
  induction n as [|n IH]; intros s i; simpl.
  - destruct i; reflexivity.
  - destruct i as [|i]; simpl.
    + now rewrite Nat.add_0_r.
    + rewrite IH. change (Nat.ltb (S i) (S n)) with (Nat.ltb i n). destruct (Nat.ltb i n); [|reflexivity].
      f_equal. f_equal. lia.
Qed.
Lemma nth_kinds d i k : nth_error (map fst (cols_of d)) i = Some k -> k = kind_at d i.
Proof.
  rewrite kinds_of_cols, nth_map_seq. destruct (Nat.ltb i (S (max_col d))); [|discriminate].
  simpl. congruence.
Qed.
Lemma nth_kinds_le d i : i <= max_col d -> nth_error (map fst (cols_of d)) i = Some (kind_at d i).
Proof.
  intros H. rewrite kinds_of_cols, nth_map_seq.
  destruct (Nat.ltb_spec i (S (max_col d))); [reflexivity|lia].
Qed.

Definition distinct (d : detected) : Prop :=
  a_date d <> a_desc d /\ a_date d <> a_amount d /\ a_desc d <> a_amount d /\
  (forall l, a_loc d = Some l -> l <> a_date d /\ l <> a_desc d /\ l <> a_amount d).

Lemma opt_eqb_true o i : opt_eqb o i = true -> o = Some i.
Proof. destruct o as [j|]; simpl; [|discriminate]. intros H. apply Nat.eqb_eq in H. now subst. Qed.

Lemma kind_at_key d i n : key (kind_at d i) = Some n ->
  (n = "date" /\ i = a_date d) \/ (n = "description" /\ i = a_desc d) \/
  (n = "amount" /\ i = a_amount d) \/ (n = "location" /\ a_loc d = Some i).
Proof.
  unfold kind_at.
  destruct (Nat.eqb_spec i (a_date d)); [simpl; intros H; injection H as <-; auto|].
  destruct (Nat.eqb_spec i (a_desc d)); [simpl; intros H; injection H as <-; auto|].
  destruct (Nat.eqb_spec i (a_amount d)); [simpl; intros H; injection H as <-; auto|].
  destruct (opt_eqb (a_loc d) i) eqn:E; [simpl; intros H; injection H as <-; apply opt_eqb_true in E; auto 6|].
  discriminate.
Qed.

Lemma kind_at_cases d i :
  (kind_at d i = KDate (Some (a_date_format d)) /\ i = a_date d) \/ (kind_at d i = KDesc /\ i = a_desc d) \/
  (kind_at d i = KAmount SgNone /\ i = a_amount d) \/ (kind_at d i = KLoc /\ a_loc d = Some i) \/ kind_at d i = KSkip.
Proof.
  unfold kind_at.
  destruct (Nat.eqb_spec i (a_date d)); [auto|]. destruct (Nat.eqb_spec i (a_desc d)); [auto|].
  destruct (Nat.eqb_spec i (a_amount d)); [auto|].
  destruct (opt_eqb (a_loc d) i) eqn:E; [apply opt_eqb_true in E; auto 6|auto 6].
Qed.

Lemma kind_at_date d : kind_at d (a_date d) = KDate (Some (a_date_format d)).
Proof. unfold kind_at. now rewrite Nat.eqb_refl. Qed.
Lemma kind_at_desc d : distinct d -> kind_at d (a_desc d) = KDesc.
Proof.
  intros (H1 & _). unfold kind_at. destruct (Nat.eqb_spec (a_desc d) (a_date d)); [congruence|].
  now rewrite Nat.eqb_refl.
Qed.
Lemma kind_at_amount d : distinct d -> kind_at d (a_amount d) = KAmount SgNone.
Proof.
  intros (_ & H2 & H3 & _). unfold kind_at. destruct (Nat.eqb_spec (a_amount d) (a_date d)); [congruence|].
  destruct (Nat.eqb_spec (a_amount d) (a_desc d)); [congruence|]. now rewrite Nat.eqb_refl.
Qed.
Lemma kind_at_loc d l : distinct d -> a_loc d = Some l -> kind_at d l = KLoc.
Proof.
  intros (_ & _ & _ & H4) E. destruct (H4 _ E) as (A & B & C). unfold kind_at.
  destruct (Nat.eqb_spec l (a_date d)); [congruence|]. destruct (Nat.eqb_spec l (a_desc d)); [congruence|].
  destruct (Nat.eqb_spec l (a_amount d)); [congruence|]. rewrite E. simpl. now rewrite Nat.eqb_refl.
Qed.

Lemma nodup_by_inj ks :
  (forall i j k k' n, nth_error ks i = Some k -> nth_error ks j = Some k' -> key k = Some n -> key k' = Some n -> i = j) ->
  NoDup (keylist ks).
Proof.
  induction ks as [|a ks IH]; intros H; [constructor|].
  assert (H' : NoDup (keylist ks)).
  { apply IH. intros i j k k' n Hi Hj Hk Hk'. assert (E : S i = S j) by (eapply H; eauto). now injection E. }
  simpl. destruct (key a) as [n|] eqn:E; [|exact H']. constructor; [|exact H'].
  intros Hin. destruct (keylist_in_nth _ _ Hin) as (i & k & Hi & Hk).
  assert (E0 : 0 = S i) by (eapply (H 0 (S i) a k n); eauto). discriminate.
Qed.

Lemma max_col_bounds d :
  a_date d <= max_col d /\ a_desc d <= max_col d /\ a_amount d <= max_col d /\
  (forall l, a_loc d = Some l -> l <= max_col d).
Proof.
  unfold max_col. destruct (a_loc d) as [l|]; repeat split; try lia; intros l' E; [injection E as <-; lia|discriminate].
Qed.

Lemma col_ok_kind_at d i sp : spec_ok (a_date_format d) = true -> (sp = plain \/ sp = spaced) ->
  col_ok (kind_at d i, sp) = true.
Proof.
  intros Hf Hsp. unfold col_ok.
  assert (Hk : match kind_at d i with KDate f => ospec_ok f | KCustom n => name_ok n | _ => true end = true).
  { destruct (kind_at_cases d i) as [[-> _]|[[-> _]|[[-> _]|[[-> _]| ->]]]]; simpl; auto. }
  rewrite Hk. destruct Hsp as [-> | ->]; reflexivity.
Qed.

Lemma cols_of_ok d : spec_ok (a_date_format d) = true -> forallb col_ok (cols_of d) = true.
Proof.
  intros Hf. unfold cols_of. cbn [forallb]. rewrite (col_ok_kind_at d 0 plain Hf (or_introl eq_refl)).
  rewrite andb_true_l. apply forallb_forall. intros c Hc. apply in_map_iff in Hc as [i [<- _]].
  apply col_ok_kind_at; auto.
Qed.

Lemma suggest_roundtrip d : distinct d -> spec_ok (a_date_format d) = true ->
  exists sp, parse_format fparse (suggest d) None = Ok sp /\
    f_date sp = a_date d /\ f_date_format sp = a_date_format d /\ f_desc sp = Some (a_desc d) /\
    f_amount sp = a_amount d /\ f_loc sp = a_loc d /\ f_neg sp = false /\ f_abs sp = false /\
    f_custom sp = [] /\ f_extra sp = [].
Proof.
  intros Hdis Hf. rewrite suggest_render.
  destruct (max_col_bounds d) as (Bd & Bde & Ba & Bl).
  set (ks := map fst (cols_of d)).
  assert (Nd : nth_error ks (a_date d) = Some (KDate (Some (a_date_format d))))
    by (unfold ks; rewrite (nth_kinds_le _ _ Bd); now rewrite kind_at_date).
  assert (Nde : nth_error ks (a_desc d) = Some KDesc)
    by (unfold ks; rewrite (nth_kinds_le _ _ Bde); now rewrite kind_at_desc).
  assert (Na : nth_error ks (a_amount d) = Some (KAmount SgNone))
    by (unfold ks; rewrite (nth_kinds_le _ _ Ba); now rewrite kind_at_amount).
  assert (Hnd : NoDup (keylist ks)).
  { apply nodup_by_inj. intros i j k k' n Hi Hj Hk Hk'.
    apply nth_kinds in Hi. apply nth_kinds in Hj. subst k k'.
    apply kind_at_key in Hk. apply kind_at_key in Hk'.
    destruct Hk as [[-> ->]|[[-> ->]|[[-> ->]|[-> E1]]]];
      destruct Hk' as [[E ->]|[[E ->]|[[E ->]|[E E2]]]]; try discriminate E; try reflexivity.
    congruence. }
  destruct (positions (cols_of d) None (cols_of_ok d Hf) Hnd) as (sp & Hp & Hm).
  - eapply nth_key_in; [exact Nd|reflexivity].
  - eapply nth_key_in; [exact Na|reflexivity].
  - unfold template_okb. fold ks.
    assert (Hh : has_desc ks = true) by (apply has_desc_in; eapply nth_error_In; exact Nde).
    now rewrite Hh.
  - exists sp. split; [exact Hp|]. fold ks in Hm.
    destruct Hm as ((f & Hdate & Hfmt) & (sg & Hamt & Hsg) & Hdesc & Hloc & Hcust & _ & _ & _ & _).
    apply nth_kinds in Hdate. apply nth_kinds in Hamt.
    assert (Ed : f_date sp = a_date d /\ f = Some (a_date_format d)).
    { destruct (kind_at_cases d (f_date sp)) as [[E ?]|[[E _]|[[E _]|[[E _]|E]]]]; rewrite E in Hdate; try discriminate.
      injection Hdate as ->. now split. }
    assert (Ea : f_amount sp = a_amount d /\ sg = SgNone).
    { destruct (kind_at_cases d (f_amount sp)) as [[E _]|[[E _]|[[E ?]|[[E _]|E]]]]; rewrite E in Hamt; try discriminate.
      injection Hamt as ->. now split. }
    destruct Ed as [Ed ->]. destruct Ea as [Ea ->]. simpl in Hfmt. injection Hsg as Hn Hab.
    assert (Hcc : f_custom sp ++ f_extra sp = []).
    { destruct (f_custom sp ++ f_extra sp) as [|[n i] l] eqn:E; [reflexivity|]. exfalso.
      assert (Hin : In (n, i) ((n, i) :: l)) by now left.
      apply Hcust in Hin. apply nth_kinds in Hin.
      destruct (kind_at_cases d i) as [[E' _]|[[E' _]|[[E' _]|[[E' _]|E']]]]; rewrite E' in Hin; discriminate. }
    apply app_eq_nil in Hcc as [Hc1 Hc2].
    repeat split; auto.
    + now apply Hdesc.
    + destruct (a_loc d) as [l|] eqn:El.
      * apply Hloc. unfold ks. rewrite (nth_kinds_le _ _ (Bl _ eq_refl)). now rewrite (kind_at_loc d l Hdis El).
      * destruct (f_loc sp) as [i|] eqn:E; [|reflexivity]. exfalso.
        pose proof (proj1 (Hloc i) eq_refl) as E2. apply nth_kinds in E2.
        destruct (kind_at_cases d i) as [[E' _]|[[E' _]|[[E' _]|[[E' El']|E']]]]; rewrite E' in E2; try discriminate.
        congruence.
Qed.

(* ---- auto-detect assigns distinct columns ---- *)
Definition one (o1 o2 : option nat) : Prop := match o1, o2 with Some a, Some b => a <> b | _, _ => True end.
Definition below (o : option nat) (i : nat) : Prop := match o with Some a => a < i | None => True end.
Definition dinv (i : nat) (d : dstate) : Prop :=
  one (d_date d) (d_desc d) /\ one (d_date d) (d_amount d) /\ one (d_date d) (d_loc d) /\
  one (d_desc d) (d_amount d) /\ one (d_desc d) (d_loc d) /\ one (d_amount d) (d_loc d) /\
  below (d_date d) i /\ below (d_desc d) i /\ below (d_amount d) i /\ below (d_loc d) i.

Lemma dinv_mono i d : dinv i d -> dinv (S i) d.
Proof.
  unfold dinv, below. intros (H1 & H2 & H3 & H4 & H5 & H6 & B1 & B2 & B3 & B4).
  repeat split; try assumption.
  - destruct (d_date d); [lia|exact I].
  - destruct (d_desc d); [lia|exact I].
  - destruct (d_amount d); [lia|exact I].
  - destruct (d_loc d); [lia|exact I].
Qed.
Lemma is_none_true {A} (o : option A) : is_none o = true -> o = None.
Proof. destruct o; [discriminate|reflexivity]. Qed.
Lemma one_new_l o i : below o i -> one (Some i) o.
Proof. intros H. destruct o; simpl in *; [lia|exact I]. Qed.
Lemma one_new_r o i : below o i -> one o (Some i).
Proof. intros H. destruct o; simpl in *; [lia|exact I]. Qed.
Lemma dstep_inv i h d : dinv i d -> dinv (S i) (dstep i h d).
Proof.
  intros H. pose proof (dinv_mono _ _ H) as Hm.
  destruct H as (_ & _ & _ & _ & _ & _ & B1 & B2 & B3 & B4).
  destruct Hm as (H1 & H2 & H3 & H4 & H5 & H6 & C1 & C2 & C3 & C4).
  unfold dstep.
  destruct (is_none (d_date d) && match_header h date_patterns)%bool eqn:E1.
  { unfold dinv; cbn [d_date d_desc d_amount d_loc]. repeat split; auto using one_new_l, one_new_r. simpl; lia. }
  destruct (is_none (d_desc d) && match_header h desc_patterns)%bool eqn:E2.
  { unfold dinv; cbn [d_date d_desc d_amount d_loc]. repeat split; auto using one_new_l, one_new_r. simpl; lia. }
  destruct (is_none (d_amount d) && match_header h amount_patterns)%bool eqn:E3.
  { unfold dinv; cbn [d_date d_desc d_amount d_loc]. repeat split; auto using one_new_l, one_new_r. simpl; lia. }
  destruct (is_none (d_loc d) && match_header h location_patterns)%bool eqn:E4.
  { unfold dinv; cbn [d_date d_desc d_amount d_loc]. repeat split; auto using one_new_l, one_new_r. simpl; lia. }
  unfold dinv. repeat split; assumption.
Qed.
Lemma drun_inv hs : forall i d, dinv i d -> dinv (i + length hs) (drun i hs d).
Proof.
  induction hs as [|h hs IH]; intros i d H; simpl.
  - now rewrite Nat.add_0_r.
  - replace (i + S (length hs)) with (S i + length hs) by lia. apply IH. now apply dstep_inv.
Qed.

Lemma auto_detect_distinct hs d : auto_detect hs = Some d -> distinct d /\ a_date_format d = detect_date_format.
Proof.
  unfold auto_detect. destruct hs as [|h hs]; [discriminate|].
  assert (H0 : dinv 0 d0) by (unfold dinv, d0; simpl; tauto).
  pose proof (drun_inv (h :: hs) 0 d0 H0) as H. revert H.
  generalize (drun 0 (h :: hs) d0). intros [[a|] [b|] [c|] l] H; try discriminate.
  intros E. injection E as <-. unfold dinv in H. simpl in H. split; [|reflexivity].
  unfold distinct. simpl. destruct H as (H1 & H2 & H3 & H4 & H5 & H6 & _).
  repeat split; try assumption; destruct l as [l'|]; try discriminate; injection H as <-; simpl in *; congruence.
Qed.

Lemma detect_format_ok : spec_ok detect_date_format = true.
Proof. vm_compute. reflexivity. Qed.

Lemma inspect_roundtrip hs d : auto_detect hs = Some d ->
  exists sp, parse_format fparse (suggest d) None = Ok sp /\
    f_date sp = a_date d /\ f_date_format sp = a_date_format d /\ f_desc sp = Some (a_desc d) /\
    f_amount sp = a_amount d /\ f_loc sp = a_loc d /\ f_neg sp = false /\ f_abs sp = false /\
    f_custom sp = [] /\ f_extra sp = [].
Proof.
  intros H. destruct (auto_detect_distinct _ _ H) as [Hd Hf].
  apply suggest_roundtrip; [exact Hd|]. rewrite Hf. exact detect_format_ok.
Qed.


(* ================================================================== part 4: file kind ==== *)
Variable csvcount : list string -> option (list nat).

(* the score reaches 3 exactly when the date indicator (2 points) fires together with one of the others;
   a delimited table is never fixed-width *)
Lemma fixed_width_decision all_lines :
  is_fixed_width csvcount all_lines =
  (Nat.leb 3 (count_if date2_prefix (firstn 20 all_lines))
   && (uniform_long (firstn 20 all_lines) || Nat.leb 3 (count_if amt_at_end (firstn 20 all_lines)))
   && negb (looks_delimited csvcount all_lines))%bool.
Proof.
  unfold is_fixed_width, fw_score. f_equal.
  destruct (uniform_long (firstn 20 all_lines)), (Nat.leb 3 (count_if date2_prefix (firstn 20 all_lines))),
    (Nat.leb 3 (count_if amt_at_end (firstn 20 all_lines))); reflexivity.
Qed.

Lemma delimited_not_fixed all_lines : looks_delimited csvcount all_lines = true -> is_fixed_width csvcount all_lines = false.
Proof. intros H. unfold is_fixed_width. rewrite H. apply andb_false_r. Qed.

Lemma few_dates_not_fixed all_lines :
  count_if date2_prefix (firstn 20 all_lines) < 3 -> is_fixed_width csvcount all_lines = false.
Proof.
  intros H. rewrite fixed_width_decision.
  destruct (Nat.leb_spec 3 (count_if date2_prefix (firstn 20 all_lines))); [lia|reflexivity].
Qed.

(* a line that starts like the date pattern has two consecutive blanks *)
Fixpoint has_two_blanks (l : string) : bool :=
  match l with
  | String a r => (match r with String b _ => (is_ws a && is_ws b)%bool | EmptyString => false end || has_two_blanks r)%bool
  | EmptyString => false
  end.
Lemma date2_has_two_blanks l : date2_prefix l = true -> has_two_blanks l = true.
Proof.
  do 12 (destruct l as [|? l]; [discriminate|]).
  unfold date2_prefix. intros H. repeat (apply andb_true_iff in H as [H ?]).
  cbn [has_two_blanks]. do 10 (apply orb_true_iff; right).
  apply orb_true_iff. left. now apply andb_true_iff.
Qed.
Lemma count_if_zero p (l : list string) : (forall x, In x l -> p x = false) -> count_if p l = 0.
Proof.
  unfold count_if. induction l as [|x l IH]; intros H; [reflexivity|]. simpl.
  rewrite (H x (or_introl eq_refl)). apply IH. intros y Hy. apply H. now right.
Qed.
Lemma in_firstn {A} (x : A) : forall n l, In x (firstn n l) -> In x l.
Proof.
  induction n as [|n IH]; intros [|y l] H; simpl in H; try contradiction.
  destruct H as [->|H]; [now left|right; now apply IH].
Qed.
Lemma no_two_blanks_not_fixed all_lines :
  (forall l, In l all_lines -> has_two_blanks l = false) -> is_fixed_width csvcount all_lines = false.
Proof.
  intros H. apply few_dates_not_fixed. rewrite count_if_zero; [lia|].
  intros x Hx. apply in_firstn in Hx. specialize (H x Hx).
  destruct (date2_prefix x) eqn:E; [|reflexivity]. apply date2_has_two_blanks in E. congruence.
Qed.

Lemma inspect_end_to_end all_lines headers d :
  is_fixed_width csvcount all_lines = false -> auto_detect headers = Some d ->
  inspect_report csvcount all_lines headers = RDetected d (suggest d) /\
  exists sp, parse_format fparse (suggest d) None = Ok sp /\
    f_date sp = a_date d /\ f_date_format sp = a_date_format d /\ f_desc sp = Some (a_desc d) /\
    f_amount sp = a_amount d /\ f_loc sp = a_loc d /\ f_neg sp = false /\ f_abs sp = false /\
    f_custom sp = [] /\ f_extra sp = [].
Proof.
  intros Hk Hd. split; [unfold inspect_report; now rewrite Hk, Hd|]. now apply (inspect_roundtrip headers).
Qed.

(* every delimited table with an auto-detectable header is reported with its columns and a suggestion that parses back *)
Lemma csv_is_reported all_lines headers d :
  looks_delimited csvcount all_lines = true -> auto_detect headers = Some d ->
  inspect_report csvcount all_lines headers = RDetected d (suggest d) /\
  exists sp, parse_format fparse (suggest d) None = Ok sp /\
    f_date sp = a_date d /\ f_date_format sp = a_date_format d /\ f_desc sp = Some (a_desc d) /\
    f_amount sp = a_amount d /\ f_loc sp = a_loc d /\ f_neg sp = false /\ f_abs sp = false /\
    f_custom sp = [] /\ f_extra sp = [].
Proof. intros H. apply inspect_end_to_end. now apply delimited_not_fixed. Qed.

End WithFormatter.
