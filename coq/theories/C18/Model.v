(* C18/Model.v — executable, character-level hand model of
     format_parser.parse_format_string                 (src/tally/format_parser.py:35-178)
     parsers.auto_detect_csv_format (header matching)  (src/tally/parsers.py:334-402)
     the suggestion builder of commands/inspect.py     (src/tally/commands/inspect.py:157-175)
   on top of the constants regenerated from the source (Gen/C18Keywords.v: RESERVED_NAMES, the
   default date formats, the four header keyword lists).  CPython's string.Formatter().parse, which the
   template validation calls, is a parameter of the model (fparse), not modelled.
   Strings are byte strings; the model is exact on the ASCII fragment (str.lower, str.strip's
   whitespace set and the regex class \w are modelled for ASCII; bytes >= 128 are neither blank
   nor word characters and are left alone by lower).  No proofs here. *)
From Coq Require Import String Ascii List Bool NArith Arith.
From Tally Require Import Lib.Str Gen.C18Keywords.
Import ListNotations.
Open Scope string_scope.

(* ---------------------------------------------------------------- characters ----------- *)
Definition ch_comma : ascii := ","%char.
Definition ch_lbrace : ascii := "{"%char.
Definition ch_rbrace : ascii := "}"%char.
Definition ch_colon : ascii := ":"%char.
Definition ch_minus : ascii := "-"%char.
Definition ch_plus : ascii := "+"%char.
Definition ch_star : ascii := "*"%char.
Definition ch_under : ascii := "_"%char.

(* str.strip() without arguments, ASCII part of Python's whitespace set: \t \n \v \f \r, FS GS RS US, space *)
Definition is_ws (c : ascii) : bool :=
  let n := N_of_ascii c in ((N.leb 9 n && N.leb n 13) || (N.leb 28 n && N.leb n 32))%bool.
Definition is_digit (c : ascii) : bool :=
  let n := N_of_ascii c in (N.leb 48 n && N.leb n 57)%bool.
(* regex \w on ASCII *)
Definition is_word (c : ascii) : bool :=
  (is_digit c || is_upper_ascii c || is_lower_ascii c || Ascii.eqb c ch_under)%bool.

Definition is_empty (s : string) : bool := match s with EmptyString => true | _ => false end.
Fixpoint sall (p : ascii -> bool) (s : string) : bool :=
  match s with EmptyString => true | String c r => (p c && sall p r)%bool end.

(* ---------------------------------------------------------------- str.split(',') / strip *)
Fixpoint split_comma (s : string) : list string :=
  match s with
  | EmptyString => [EmptyString]
  | String c r =>
      if Ascii.eqb c ch_comma then EmptyString :: split_comma r
      else match split_comma r with
           | h :: t => String c h :: t
           | [] => [String c EmptyString]       (* unreachable: split_comma never returns [] *)
           end
  end.

Fixpoint lstrip (s : string) : string :=
  match s with
  | EmptyString => EmptyString
  | String c r => if is_ws c then lstrip r else s
  end.
Fixpoint rstrip (s : string) : string :=
  match s with
  | EmptyString => EmptyString
  | String c r => match rstrip r with
                  | EmptyString => if is_ws c then EmptyString else String c EmptyString
                  | r' => String c r'
                  end
  end.
Definition strip (s : string) : string := rstrip (lstrip s).

(* longest prefix of characters satisfying p, and the rest *)
Fixpoint span (p : ascii -> bool) (s : string) : string * string :=
  match s with
  | EmptyString => (EmptyString, EmptyString)
  | String c r => if p c then let (a, b) := span p r in (String c a, b) else (EmptyString, s)
  end.

(* ---------------------------------------------------------------- one column token ------ *)
(* field_pattern.match(part) for the pattern pinned by tools/c18_tables.py (FIELD_PATTERN):
   open brace, optional sign, one or more word characters or a single star, optionally a colon
   followed by one or more non-closing-brace characters, closing brace.  Anchored at the start only:
   whatever follows the closing brace is ignored, as re.match does.  Every quantifier in the
   pattern is followed by a character outside its class, so the greedy choice is the only one
   that can succeed: no backtracking is needed. *)
Inductive sign := SgNone | SgMinus | SgPlus.

Definition take_sign (s : string) : sign * string :=
  match s with
  | String c r => if Ascii.eqb c ch_minus then (SgMinus, r)
                  else if Ascii.eqb c ch_plus then (SgPlus, r) else (SgNone, s)
  | EmptyString => (SgNone, s)
  end.

Definition take_name (s : string) : option (string * string) :=
  match s with
  | String c r =>
      if is_word c then Some (span is_word s)
      else if Ascii.eqb c ch_star then Some (String ch_star EmptyString, r)
      else None
  | EmptyString => None
  end.

Definition take_spec (s : string) : option (option string) :=
  match s with
  | String c r =>
      if Ascii.eqb c ch_rbrace then Some None
      else if Ascii.eqb c ch_colon then
        match span (fun x => negb (Ascii.eqb x ch_rbrace)) r with
        | (EmptyString, _) => None                 (* {name:}  -> no match *)
        | (spec, String _ _) => Some (Some spec)   (* the rest starts with the closing brace *)
        | (_, EmptyString) => None                 (* ran off the end: no closing brace *)
        end
      else None
  | EmptyString => None
  end.

Definition match_field (s : string) : option (sign * string * option string) :=
  match s with
  | String c r =>
      if Ascii.eqb c ch_lbrace then
        let (sg, r1) := take_sign r in
        match take_name r1 with
        | Some (name, r2) =>
            match take_spec r2 with
            | Some spec => Some (sg, name, spec)
            | None => None
            end
        | None => None
        end
      else None
  | EmptyString => None
  end.

(* ---------------------------------------------------------------- the column loop ------- *)
Inductive perr := EInvalidColumn (idx : nat) | EDuplicate (name : string) (idx : nat)
                | ENoDescription | ENeedTemplate | EBadTemplate | EUncaptured (ref : string) | EMissingRequired.
Inductive res (A : Type) := Ok (v : A) | Err (e : perr).
Arguments Ok {A} v.
Arguments Err {A} e.

(* the local variables of parse_format_string; dicts are association lists in insertion order *)
Record pstate := {
  fp : list (string * nat);       (* field_positions *)
  cc : list (string * nat);       (* custom_captures *)
  dfmt : string;                  (* date_format *)
  neg : bool;                     (* negate_amount *)
  absv : bool;                    (* abs_amount *)
  skp : list nat }.               (* ghost: indices of skipped columns ({_} / {*}) *)

Definition st0 : pstate :=
  {| fp := []; cc := []; dfmt := default_date_format; neg := false; absv := false; skp := [] |}.

Definition is_reserved (n : string) : bool := mem n reserved_names.
Definition is_skip_name (n : string) : bool := (String.eqb n "_" || String.eqb n "*")%bool.
Definition keys (d : list (string * nat)) : list string := map fst d.

Definition step (idx : nat) (part : string) (s : pstate) : res pstate :=
  match match_field part with
  | None => Err (EInvalidColumn idx)
  | Some (sg, raw, spec) =>
      let name := lower raw in
      if is_skip_name name then
        Ok {| fp := fp s; cc := cc s; dfmt := dfmt s; neg := neg s; absv := absv s; skp := skp s ++ [idx] |}
      else if is_reserved name then
        if mem name (keys (fp s)) then Err (EDuplicate name idx)
        else Ok {| fp := fp s ++ [(name, idx)]; cc := cc s;
                   dfmt := (if String.eqb name "date" then match spec with Some f => f | None => dfmt s end
                            else dfmt s);
                   neg := (if String.eqb name "amount" then match sg with SgMinus => true | _ => neg s end
                           else neg s);
                   absv := (if String.eqb name "amount" then match sg with SgPlus => true | _ => absv s end
                            else absv s);
                   skp := skp s |}
      else
        if mem name (keys (cc s)) then Err (EDuplicate name idx)
        else Ok {| fp := fp s; cc := cc s ++ [(name, idx)]; dfmt := dfmt s; neg := neg s; absv := absv s;
                   skp := skp s |}
  end.

(* for idx, part in enumerate(parts), each part stripped *)
Fixpoint run (idx : nat) (parts : list string) (s : pstate) : res pstate :=
  match parts with
  | [] => Ok s
  | p :: r => match step idx (strip p) s with
              | Ok s' => run (S idx) r s'
              | Err e => Err e
              end
  end.

(* ---------------------------------------------------------------- the template scan ----- *)
(* _template_field_names(template): the names str.format would look up.  string.Formatter().parse is
   CPython library code: it is a parameter (fparse) of the model, never modelled.  fparse t = Some l
   lists the replacement fields of t as (field_name, format_spec) pairs (format_spec "" when absent);
   None = the library raises ValueError (not a valid format string).
   tally's own part is modelled: the name is field_name cut at the first "." or "["
   (re.split(r'[.\[]', field_name, maxsplit=1)[0]), and a non-empty format_spec is scanned recursively.
   A format_spec is a proper substring of its template, so the recursion depth is bounded by the
   length of the template: fuel = S (length t) never runs out on the real library. *)
Definition is_name_split (c : ascii) : bool := (Ascii.eqb c "."%char || Ascii.eqb c "["%char)%bool.
Definition arg_name (field : string) : string := fst (span (fun c => negb (is_name_split c)) field).

(* for _, field_name, format_spec, _ in parse(template): names.append(cut(field_name));
   if format_spec: names.extend(recursive call) -- rec is the recursive call *)
Fixpoint collect (rec : string -> option (list string)) (l : list (string * string)) : option (list string) :=
  match l with
  | [] => Some []
  | (fld, spec) :: r =>
      match (if is_empty spec then Some [] else rec spec), collect rec r with
      | Some a, Some b => Some (arg_name fld :: a ++ b)
      | _, _ => None
      end
  end.

Section Formatter.
Variable fparse : string -> option (list (string * string)).

Fixpoint tnames (fuel : nat) (t : string) : option (list string) :=
  match fuel with
  | 0 => None
  | S f => match fparse t with
           | None => None
           | Some fields => collect (tnames f) fields
           end
  end.
Definition template_names (t : string) : option (list string) := tnames (S (String.length t)) t.

(* ---------------------------------------------------------------- validation + result --- *)
Record fspec := {
  f_date : nat; f_date_format : string; f_amount : nat;
  f_desc : option nat;
  f_custom : list (string * nat);      (* custom_captures ([] = None) *)
  f_template : option string;
  f_extra : list (string * nat);       (* extra_fields ([] = None) *)
  f_loc : option nat;
  f_neg : bool; f_abs : bool;
  f_skipped : list nat }.              (* ghost *)

Fixpoint lookup (k : string) (d : list (string * nat)) : option nat :=
  match d with [] => None | (k', v) :: r => if String.eqb k k' then Some v else lookup k r end.

(* `if description_template:` — None and '' are both false *)
Definition truthy (t : option string) : bool := match t with Some s => negb (is_empty s) | None => false end.
Fixpoint first_missing (refs : list string) (have : list string) : option string :=
  match refs with [] => None | r :: rest => if mem r have then first_missing rest have else Some r end.

(* `if description_template:` try: refs = _template_field_names(...) except ValueError: raise ValueError;
   for ref in refs: if ref not in custom_captures: raise ValueError *)
Definition check_template (tmpl : option string) (have : list string) : option perr :=
  match tmpl with
  | Some t =>
      if is_empty t then None
      else match template_names t with
           | None => Some EBadTemplate
           | Some names => match first_missing names have with Some r => Some (EUncaptured r) | None => None end
           end
  | None => None
  end.

Definition finish (s : pstate) (tmpl : option string) : res fspec :=
  let has_desc := mem "description" (keys (fp s)) in
  let has_custom0 := negb (match cc s with [] => true | _ => false end) in
  let both := (has_desc && has_custom0)%bool in
  let extra := if both then cc s else [] in
  let cc' := if both then [] else cc s in
  let has_custom := if both then false else has_custom0 in
  if (negb has_desc && negb has_custom)%bool then Err ENoDescription
  else if (has_custom && negb (truthy tmpl))%bool then Err ENeedTemplate
  else match check_template tmpl (keys cc') with
       | Some e => Err e
       | None =>
           match lookup "date" (fp s), lookup "amount" (fp s) with
           | Some d, Some a =>
               Ok {| f_date := d; f_date_format := dfmt s; f_amount := a;
                     f_desc := lookup "description" (fp s);
                     f_custom := cc'; f_template := tmpl; f_extra := extra;
                     f_loc := lookup "location" (fp s);
                     f_neg := neg s; f_abs := absv s; f_skipped := skp s |}
           | _, _ => Err EMissingRequired
           end
       end.

Definition parse_format (format_str : string) (tmpl : option string) : res fspec :=
  match run 0 (split_comma format_str) st0 with
  | Ok s => finish s tmpl
  | Err e => Err e
  end.
End Formatter.

(* ---------------------------------------------------------------- auto-detect ----------- *)
Fixpoint contains (needle hay : string) : bool :=
  if String.prefix needle hay then true
  else match hay with EmptyString => false | String _ r => contains needle r end.

(* header.lower().strip(), any(p in header_lower for p in patterns) *)
Definition match_header (h : string) (pats : list string) : bool :=
  let hl := strip (lower h) in existsb (fun p => contains p hl) pats.

Record dstate := { d_date : option nat; d_desc : option nat; d_amount : option nat; d_loc : option nat }.
Definition d0 : dstate := {| d_date := None; d_desc := None; d_amount := None; d_loc := None |}.
Definition is_none {A} (o : option A) : bool := match o with None => true | Some _ => false end.

Definition dstep (idx : nat) (h : string) (d : dstate) : dstate :=
  if (is_none (d_date d) && match_header h date_patterns)%bool then
    {| d_date := Some idx; d_desc := d_desc d; d_amount := d_amount d; d_loc := d_loc d |}
  else if (is_none (d_desc d) && match_header h desc_patterns)%bool then
    {| d_date := d_date d; d_desc := Some idx; d_amount := d_amount d; d_loc := d_loc d |}
  else if (is_none (d_amount d) && match_header h amount_patterns)%bool then
    {| d_date := d_date d; d_desc := d_desc d; d_amount := Some idx; d_loc := d_loc d |}
  else if (is_none (d_loc d) && match_header h location_patterns)%bool then
    {| d_date := d_date d; d_desc := d_desc d; d_amount := d_amount d; d_loc := Some idx |}
  else d.

Fixpoint drun (idx : nat) (hs : list string) (d : dstate) : dstate :=
  match hs with [] => d | h :: r => drun (S idx) r (dstep idx h d) end.

(* what auto_detect_csv_format returns / what inspect prints *)
Record detected := { a_date : nat; a_date_format : string; a_desc : nat; a_amount : nat; a_loc : option nat }.

(* hs = the cells of the first CSV row ([] = empty file or blank first line -> ValueError) *)
Definition auto_detect (hs : list string) : option detected :=
  match hs with
  | [] => None
  | _ => let d := drun 0 hs d0 in
         match d_date d, d_desc d, d_amount d with
         | Some a, Some b, Some c =>
             Some {| a_date := a; a_date_format := detect_date_format; a_desc := b; a_amount := c; a_loc := d_loc d |}
         | _, _, _ => None
         end
  end.

(* ---------------------------------------------------------------- inspect's suggestion -- *)
Definition opt_eqb (o : option nat) (i : nat) : bool := match o with Some j => Nat.eqb i j | None => false end.
Definition suggest_col (s : detected) (i : nat) : string :=
  if Nat.eqb i (a_date s) then "{date:" ++ a_date_format s ++ "}"
  else if Nat.eqb i (a_desc s) then "{description}"
  else if Nat.eqb i (a_amount s) then "{amount}"
  else if opt_eqb (a_loc s) i then "{location}"
  else "{_}".
Definition max_col (s : detected) : nat :=
  let m := Nat.max (Nat.max (a_date s) (a_desc s)) (a_amount s) in
  match a_loc s with Some l => Nat.max m l | None => m end.
(* ', '.join(cols) *)
Fixpoint join_cs (l : list string) : string :=
  match l with [] => "" | [x] => x | x :: r => x ++ ", " ++ join_cs r end.
Definition suggest (s : detected) : string := join_cs (map (suggest_col s) (seq 0 (S (max_col s)))).

(* ---------------------------------------------------------------- inspect: file kind ---- *)
(* commands/inspect.py _detect_file_format: the fixed-width score, and cmd_inspect's early return.
   lines = sample.split('\n') of the first 8192 characters (text mode); the model takes the first 20.
   \d and \s are modelled for ASCII (is_digit, is_ws); len() counts code points (UTF-8 lead bytes). *)
Definition ch_slash : ascii := "/"%char.
Definition ch_dot : ascii := "."%char.
Definition ch_hash : ascii := "#"%char.

(* date_pattern.match(l): two digits, slash, two digits, slash, four digits, then at least two blanks *)
Definition date2_prefix (l : string) : bool :=
  match l with
  | String a (String b (String s1 (String c (String d (String s2 (String e (String f (String g (String h
      (String w1 (String w2 _))))))))))) =>
      (is_digit a && is_digit b && Ascii.eqb s1 ch_slash && is_digit c && is_digit d && Ascii.eqb s2 ch_slash
       && is_digit e && is_digit f && is_digit g && is_digit h && is_ws w1 && is_ws w2)%bool
  | _ => false
  end.

(* amount_at_end.search(l): blanks, optional minus, digits/commas, dot, two digits, blanks, end of line *)
Definition amt_here (s : string) : bool :=
  match s with
  | String w r =>
      if is_ws w then
        let r1 := lstrip r in
        let r2 := match r1 with String c r' => if Ascii.eqb c ch_minus then r' else r1 | EmptyString => r1 end in
        let (num, r3) := span (fun c => (is_digit c || Ascii.eqb c ch_comma)%bool) r2 in
        if is_empty num then false
        else match r3 with
             | String p (String d1 (String d2 r4)) =>
                 (Ascii.eqb p ch_dot && is_digit d1 && is_digit d2 && sall is_ws r4)%bool
             | _ => false
             end
      else false
  | EmptyString => false
  end.
Fixpoint amt_at_end (l : string) : bool :=
  (amt_here l || match l with String _ r => amt_at_end r | EmptyString => false end)%bool.

(* len(l): code points of the UTF-8 bytes *)
Fixpoint ulen (s : string) : nat :=
  match s with
  | EmptyString => 0
  | String c r => let n := N_of_ascii c in if (N.ltb n 128 || N.leb 192 n)%bool then S (ulen r) else ulen r
  end.
Definition counted_line (l : string) : bool :=
  (negb (is_empty (strip l)) && negb (match l with String c _ => Ascii.eqb c ch_hash | EmptyString => false end))%bool.
Definition sum_nat (l : list nat) : nat := fold_right Nat.add 0 l.
Definition max_nat (l : list nat) : nat := fold_right Nat.max 0 l.
Definition min_nat (l : list nat) : nat := match l with [] => 0 | x :: r => fold_right Nat.min x r end.
(* avg_len > 80 and max - min < 20 over the non-blank, non-comment lines *)
Definition uniform_long (lines : list string) : bool :=
  let ls := map ulen (filter counted_line lines) in
  match ls with
  | [] => false
  | _ => (Nat.ltb (80 * length ls) (sum_nat ls) && Nat.ltb (max_nat ls - min_nat ls) 20)%bool
  end.
Definition count_if (p : string -> bool) (l : list string) : nat := length (filter p l).

Definition fw_score (all_lines : list string) : nat :=
  let lines := firstn 20 all_lines in
  (if uniform_long lines then 1 else 0)
  + (if Nat.leb 3 (count_if date2_prefix lines) then 2 else 0)
  + (if Nat.leb 3 (count_if amt_at_end lines) then 1 else 0).

(* the delimited-table guard: re.sub(r'(?<=\d),(?=\d{3})', '', l) on the non-blank, non-comment lines
   (a comma between a digit and three digits is a thousands separator, not a field separator; the
   look-behind sees the original text), then csv.reader's field count of every row.  csv.reader is
   CPython library code: a parameter (csvcount; None = csv.Error), not modelled. *)
Definition three_digits (s : string) : bool :=
  match s with String a (String b (String c _)) => (is_digit a && is_digit b && is_digit c)%bool | _ => false end.
Fixpoint strip_thousands (prev_digit : bool) (s : string) : string :=
  match s with
  | EmptyString => EmptyString
  | String c r =>
      if (Ascii.eqb c ch_comma && prev_digit && three_digits r)%bool then strip_thousands false r
      else String c (strip_thousands (is_digit c) r)
  end.
Definition table_lines (lines : list string) : list string :=
  map (strip_thousands false) (filter counted_line lines).

Section FileKind.
Variable csvcount : list string -> option (list nat).

(* len(field_counts) == 1 and min(field_counts) >= 3 *)
Definition looks_delimited (all_lines : list string) : bool :=
  match csvcount (table_lines (firstn 20 all_lines)) with
  | Some (n :: rest) => (forallb (Nat.eqb n) rest && Nat.leb 3 n)%bool
  | _ => false
  end.
Definition is_fixed_width (all_lines : list string) : bool :=
  (Nat.leb 3 (fw_score all_lines) && negb (looks_delimited all_lines))%bool.

(* what cmd_inspect reports: fixed-width files return before auto-detection *)
Inductive ireport := RFixedWidth | RNoDetect | RDetected (d : detected) (suggested : string).
Definition inspect_report (all_lines headers : list string) : ireport :=
  if is_fixed_width all_lines then RFixedWidth
  else match auto_detect headers with
       | Some d => RDetected d (suggest d)
       | None => RNoDetect
       end.
End FileKind.
