(* C18 — a format string maps columns by position, and inspect's suggestion round-trips.
   Model: C18/Model.v (character-level hand model of parse_format_string, auto_detect_csv_format's
   header matching and cmd_inspect's suggestion builder) over Gen/C18Keywords.v (RESERVED_NAMES, default
   date formats and header keyword lists, regenerated from /repo on every run; the two regular
   expressions and the "," separator are pinned by the translator).  Vocabulary: C18/Spec.v
   (arrangements = lists of column kinds of ANY length, spellings, render, maps_by_position).
   The tie between the model and the code is the correspondence check of harness/c18.py. *)
From Coq Require Import String Ascii List Bool NArith Arith.
From Tally Require Import Lib.Str Gen.C18Keywords C18.Model C18.Spec C18.Proofs.
Import ListNotations.
Open Scope string_scope.

(* Every arrangement with exactly one date and one amount, at most one description / location and
   distinct valid custom names (= no registered name twice), written with any blanks around the
   tokens, any letter case, {_} or {*}, any (ignored) sign / format on the other columns, any date
   format without "," and "}", is accepted, and every column is found at exactly its position. *)
Theorem c18_positions :
  forall (cols : list (kind * spelling)) (tmpl : option string),
    forallb col_ok cols = true ->
    NoDup (keylist (map fst cols)) ->
    In "date" (keylist (map fst cols)) -> In "amount" (keylist (map fst cols)) ->
    template_okb (map fst cols) tmpl = true ->
    exists sp, parse_format (render cols) tmpl = Ok sp /\ maps_by_position (map fst cols) tmpl sp.
Proof. exact positions. Qed.
Print Assumptions c18_positions.

(* no date, no amount, or neither {description} nor a custom capture: rejected, whatever else is there *)
Theorem c18_reject_missing :
  forall (cols : list (kind * spelling)) (tmpl : option string),
    forallb col_ok cols = true ->
    (~ In "date" (keylist (map fst cols)) \/ ~ In "amount" (keylist (map fst cols)) \/
     (~ In KDesc (map fst cols) /\ forall n, ~ In (KCustom n) (map fst cols))) ->
    exists e, parse_format (render cols) tmpl = Err e.
Proof. exact reject_missing. Qed.
Print Assumptions c18_reject_missing.

(* any name registered twice (two dates, two {description}, the same custom name in any letter case, ...) *)
Theorem c18_reject_duplicate :
  forall (cols : list (kind * spelling)) (tmpl : option string),
    forallb col_ok cols = true ->
    ~ NoDup (keylist (map fst cols)) ->
    exists e, parse_format (render cols) tmpl = Err e.
Proof. exact reject_duplicate. Qed.
Print Assumptions c18_reject_duplicate.

(* Full statement: a template that names (in str.format's sense: format_names) a column that is not a
   usable capture is rejected.  It is FALSE of the faithful model: the parser only scans for plain
   {name} references, so {nope:>10}, {nope!r}, {nope.x}, {nope[0]} pass. *)
Definition c18_reject_uncaptured_template_statement : Prop :=
  forall (cols : list (kind * spelling)) (t r : string),
    forallb col_ok cols = true ->
    In r (format_names t) -> ~ In r (mode2_names (map fst cols)) ->
    exists e, parse_format (render cols) (Some t) = Err e.

Definition c18_witness_cols : list (kind * spelling) :=
  [(KDate None, plain); (KCustom "merchant", plain); (KAmount SgNone, plain)].
Definition c18_witness_template : string := "{merchant} {nope:>10}".

Theorem c18_reject_uncaptured_template_refuted : ~ c18_reject_uncaptured_template_statement.
Proof.
  intros H. specialize (H c18_witness_cols c18_witness_template "nope" eq_refl).
  destruct H as [e He].
  - vm_compute. auto.
  - vm_compute. intros [E|[]]. discriminate E.
  - vm_compute in He. discriminate He.
Qed.
Print Assumptions c18_reject_uncaptured_template_refuted.

(* What does hold: every plain {name} reference to something that is not a usable capture is rejected ... *)
Theorem c18_reject_uncaptured_template_partial :
  forall (cols : list (kind * spelling)) (t r : string),
    forallb col_ok cols = true ->
    In r (template_refs t) -> ~ In r (mode2_names (map fst cols)) ->
    exists e, parse_format (render cols) (Some t) = Err e.
Proof. exact reject_uncaptured. Qed.
Print Assumptions c18_reject_uncaptured_template_partial.

(* ... hence the full statement under the computable guard "every name the template uses occurs as a plain
   {name} reference" (names_plain) *)
Theorem c18_reject_uncaptured_template_guarded :
  forall (cols : list (kind * spelling)) (t r : string),
    forallb col_ok cols = true -> names_plain t = true ->
    In r (format_names t) -> ~ In r (mode2_names (map fst cols)) ->
    exists e, parse_format (render cols) (Some t) = Err e.
Proof. exact reject_uncaptured_names. Qed.
Print Assumptions c18_reject_uncaptured_template_guarded.

(* For every header row: if auto-detect succeeds, the string inspect suggests parses and selects the same
   date / description / amount / location columns and the same date format, with no sign mode. *)
Theorem c18_inspect_roundtrip :
  forall (headers : list string) (d : detected),
    auto_detect headers = Some d ->
    exists sp, parse_format (suggest d) None = Ok sp /\
      f_date sp = a_date d /\ f_date_format sp = a_date_format d /\ f_desc sp = Some (a_desc d) /\
      f_amount sp = a_amount d /\ f_loc sp = a_loc d /\ f_neg sp = false /\ f_abs sp = false /\
      f_custom sp = [] /\ f_extra sp = [].
Proof. exact inspect_roundtrip. Qed.
Print Assumptions c18_inspect_roundtrip.

(* ---- non-vacuity ---- *)
Definition ex_cols : list (kind * spelling) :=
  [ (KSkip, {| sp_lead := " "; sp_trail := ""; sp_mask := []; sp_star := true; sp_sign := SgNone; sp_spec := None |});
    (KDate (Some "%d.%m.%Y"), {| sp_lead := ""; sp_trail := "  "; sp_mask := [true; false; true]; sp_star := false;
                                 sp_sign := SgMinus; sp_spec := None |});
    (KCustom "merchant", {| sp_lead := " "; sp_trail := ""; sp_mask := [true]; sp_star := false; sp_sign := SgNone;
                            sp_spec := Some ">5" |});
    (KSkip, plain);
    (KAmount SgPlus, spaced);
    (KCustom "type", spaced);
    (KLoc, spaced) ].

Example c18_example_hypotheses :
  forallb col_ok ex_cols = true /\ template_okb (map fst ex_cols) (Some "{merchant} ({type})") = true /\
  render ex_cols = " {*},{-DaTe:%d.%m.%Y}  , {Merchant:>5},{_}, {+amount}, {type}, {location}" /\
  keylist (map fst ex_cols) = ["date"; "merchant"; "amount"; "type"; "location"].
Proof. vm_compute. repeat split; reflexivity. Qed.

Example c18_example_positions :
  parse_format (render ex_cols) (Some "{merchant} ({type})") =
  Ok {| f_date := 1; f_date_format := "%d.%m.%Y"; f_amount := 4; f_desc := None;
        f_custom := [("merchant", 2); ("type", 5)]; f_template := Some "{merchant} ({type})"; f_extra := [];
        f_loc := Some 6; f_neg := false; f_abs := true; f_skipped := [0; 3] |}.
Proof. vm_compute. reflexivity. Qed.

Example c18_example_rejects :
  (exists e, parse_format "{date}, {description}" None = Err e) /\
  (exists e, parse_format "{date}, {amount}, {Date:%Y}, {description}" None = Err e) /\
  (exists e, parse_format "{date}, {merchant}, {amount}" (Some "{merchant} {typo}") = Err e) /\
  (exists sp, parse_format "{date}, {merchant}, {amount}" (Some c18_witness_template) = Ok sp) /\
  format_names c18_witness_template = ["merchant"; "nope"] /\ template_refs c18_witness_template = ["merchant"].
Proof. vm_compute. repeat split; eexists; reflexivity. Qed.

Example c18_example_inspect :
  exists d, auto_detect ["Card"; "Posting Date"; "Trans Date"; "Merchant Name"; "City"; "Debit"] = Some d /\
    a_date d = 1 /\ a_desc d = 3 /\ a_amount d = 5 /\ a_loc d = Some 4 /\
    suggest d = "{_}, {date:" ++ detect_date_format ++ "}, {_}, {description}, {location}, {amount}".
Proof. eexists. vm_compute. repeat split; reflexivity. Qed.
