(* C18 — a format string maps columns by position, and inspect's suggestion round-trips.
   Model: C18/Model.v (character-level hand model of parse_format_string, auto_detect_csv_format's
   header matching and cmd_inspect's suggestion builder) over Gen/C18Keywords.v (RESERVED_NAMES, default
   date formats and header keyword lists, regenerated from /repo on every run; the field regular
   expression, the "," separator and the helper _template_field_names are pinned by the translator).  Vocabulary: C18/Spec.v
   (arrangements = lists of column kinds of ANY length, spellings, render, maps_by_position).
   The tie between the model and the code is the correspondence check of harness/c18.py. *)
From Coq Require Import String Ascii List Bool NArith Arith.
From Tally Require Import Lib.Str Gen.C18Keywords C18.Model C18.Spec C18.Proofs.
Import ListNotations.
Open Scope string_scope.

(* CPython's string.Formatter().parse (used by the template validation) is library code: every theorem
   below holds for EVERY function fparse standing for it (None = it raises ValueError). *)
Definition formatter := string -> option (list (string * string)).

(* Every arrangement with exactly one date and one amount, at most one description / location and
   distinct valid custom names (= no registered name twice), written with any blanks around the
   tokens, any letter case, {_} or {*}, any (ignored) sign / format on the other columns, any date
   format without "," and "}", is accepted, and every column is found at exactly its position. *)
Theorem c18_positions :
  forall (fparse : formatter) (cols : list (kind * spelling)) (tmpl : option string),
    forallb col_ok cols = true ->
    NoDup (keylist (map fst cols)) ->
    In "date" (keylist (map fst cols)) -> In "amount" (keylist (map fst cols)) ->
    template_okb fparse (map fst cols) tmpl = true ->
    exists sp, parse_format fparse (render cols) tmpl = Ok sp /\ maps_by_position (map fst cols) tmpl sp.
Proof. exact positions. Qed.
Print Assumptions c18_positions.

(* no date, no amount, or neither {description} nor a custom capture: rejected, whatever else is there *)
Theorem c18_reject_missing :
  forall (fparse : formatter) (cols : list (kind * spelling)) (tmpl : option string),
    forallb col_ok cols = true ->
    (~ In "date" (keylist (map fst cols)) \/ ~ In "amount" (keylist (map fst cols)) \/
     (~ In KDesc (map fst cols) /\ forall n, ~ In (KCustom n) (map fst cols))) ->
    exists e, parse_format fparse (render cols) tmpl = Err e.
Proof. exact reject_missing. Qed.
Print Assumptions c18_reject_missing.

(* any name registered twice (two dates, two {description}, the same custom name in any letter case, ...) *)
Theorem c18_reject_duplicate :
  forall (fparse : formatter) (cols : list (kind * spelling)) (tmpl : option string),
    forallb col_ok cols = true ->
    ~ NoDup (keylist (map fst cols)) ->
    exists e, parse_format fparse (render cols) tmpl = Err e.
Proof. exact reject_duplicate. Qed.
Print Assumptions c18_reject_duplicate.

(* Full statement (a theorem about the tree since the fix "description template validation misses
   {name:spec} ..."): a non-empty template that names -- in str.format's sense (Spec.looks_up: plain {r},
   {r:spec}, {r!c}, {r.a}, {r[i]}, nested {a:{r}}) -- a column that is not a usable capture is rejected.
   History: before the fix the parser only scanned for plain {name} references and this statement was
   refuted by "{merchant} {nope:>10}" (finding C18/template-nonplain-reference-unchecked, now "fixed"). *)
Definition c18_reject_uncaptured_template_statement : Prop :=
  forall (fparse : formatter) (cols : list (kind * spelling)) (t r : string),
    forallb col_ok cols = true -> t <> "" ->
    looks_up fparse t r -> ~ In r (mode2_names (map fst cols)) ->
    exists e, parse_format fparse (render cols) (Some t) = Err e.

Theorem c18_reject_uncaptured_template : c18_reject_uncaptured_template_statement.
Proof. exact reject_uncaptured. Qed.
Print Assumptions c18_reject_uncaptured_template.

(* a non-empty template that is not a valid format string (the library raises ValueError) is rejected *)
Theorem c18_reject_malformed_template :
  forall (fparse : formatter) (cols : list (kind * spelling)) (t : string),
    forallb col_ok cols = true -> t <> "" -> fparse t = None ->
    exists e, parse_format fparse (render cols) (Some t) = Err e.
Proof. exact reject_malformed_template. Qed.
Print Assumptions c18_reject_malformed_template.

(* For every header row: if auto-detect succeeds, the string inspect suggests parses and selects the same
   date / description / amount / location columns and the same date format, with no sign mode. *)
Theorem c18_inspect_roundtrip :
  forall (fparse : formatter) (headers : list string) (d : detected),
    auto_detect headers = Some d ->
    exists sp, parse_format fparse (suggest d) None = Ok sp /\
      f_date sp = a_date d /\ f_date_format sp = a_date_format d /\ f_desc sp = Some (a_desc d) /\
      f_amount sp = a_amount d /\ f_loc sp = a_loc d /\ f_neg sp = false /\ f_abs sp = false /\
      f_custom sp = [] /\ f_extra sp = [].
Proof. exact inspect_roundtrip. Qed.
Print Assumptions c18_inspect_roundtrip.

(* ---- non-vacuity ---- *)
(* what CPython's parser answers on the templates used below *)
Definition ex_fparse : formatter := fun t =>
  if String.eqb t "{merchant} ({type})" then Some [("merchant", ""); ("type", "")]
  else if String.eqb t "{merchant} {nope:>10}" then Some [("merchant", ""); ("nope", ">10")]
  else if String.eqb t "{merchant} {typo}" then Some [("merchant", ""); ("typo", "")]
  else if String.eqb t "{merchant:{w}}" then Some [("merchant", "{w}")]
  else if String.eqb t "{w}" then Some [("w", "")]
  else if String.eqb t "{merchant.real} {type[0]!r}" then Some [("merchant.real", ""); ("type[0]", "")]
  else if String.eqb t "{merchant" then None
  else Some [].

Definition ex_cols : list (kind * spelling) :=
  [ (KSkip, {| sp_lead := " "; sp_trail := ""; sp_mask := []; sp_star := true; sp_sign := SgNone; sp_spec := None |});
    (KDate (Some "%d.%m.%Y"), {| sp_lead := ""; sp_trail := "  "; sp_mask := [true; false; true]; sp_star := false;
                                 sp_sign := SgMinus; sp_spec := None |});
    (KCustom "merchant", {| sp_lead := " "; sp_trail := ""; sp_mask := [true]; sp_star := false; sp_sign := SgNone;
                            sp_spec := Some ">5" |});
    (KSkip, plain);
    (KAmount SgPlus, spaced);
    (KCustom "type", spaced);
    (KLoc, spaced) ].

Example c18_example_hypotheses :
  forallb col_ok ex_cols = true /\ template_okb ex_fparse (map fst ex_cols) (Some "{merchant} ({type})") = true /\
  template_okb ex_fparse (map fst ex_cols) (Some "{merchant.real} {type[0]!r}") = true /\
  render ex_cols = " {*},{-DaTe:%d.%m.%Y}  , {Merchant:>5},{_}, {+amount}, {type}, {location}" /\
  keylist (map fst ex_cols) = ["date"; "merchant"; "amount"; "type"; "location"].
Proof. vm_compute. repeat split; reflexivity. Qed.

Example c18_example_positions :
  parse_format ex_fparse (render ex_cols) (Some "{merchant} ({type})") =
  Ok {| f_date := 1; f_date_format := "%d.%m.%Y"; f_amount := 4; f_desc := None;
        f_custom := [("merchant", 2); ("type", 5)]; f_template := Some "{merchant} ({type})"; f_extra := [];
        f_loc := Some 6; f_neg := false; f_abs := true; f_skipped := [0; 3] |}.
Proof. vm_compute. reflexivity. Qed.

Example c18_example_looks_up :
  looks_up ex_fparse "{merchant} {nope:>10}" "nope" /\ looks_up ex_fparse "{merchant:{w}}" "w".
Proof.
  split.
  - apply (lu_field ex_fparse "{merchant} {nope:>10}" [("merchant", ""); ("nope", ">10")] "nope" ">10"); [reflexivity|].
    right. now left.
  - apply (lu_nested ex_fparse "{merchant:{w}}" [("merchant", "{w}")] "merchant" "{w}" "w"); [reflexivity|now left|discriminate|].
    apply (lu_field ex_fparse "{w}" [("w", "")] "w" ""); [reflexivity|now left].
Qed.

Example c18_example_rejects :
  (exists e, parse_format ex_fparse "{date}, {description}" None = Err e) /\
  (exists e, parse_format ex_fparse "{date}, {amount}, {Date:%Y}, {description}" None = Err e) /\
  (exists e, parse_format ex_fparse "{date}, {merchant}, {amount}" (Some "{merchant} {typo}") = Err e) /\
  parse_format ex_fparse "{date}, {merchant}, {amount}" (Some "{merchant} {nope:>10}") = Err (EUncaptured "nope") /\
  parse_format ex_fparse "{date}, {merchant}, {amount}" (Some "{merchant:{w}}") = Err (EUncaptured "w") /\
  parse_format ex_fparse "{date}, {merchant}, {amount}" (Some "{merchant") = Err EBadTemplate.
Proof. vm_compute. repeat split; try (eexists; reflexivity); reflexivity. Qed.

Example c18_example_inspect :
  exists d, auto_detect ["Card"; "Posting Date"; "Trans Date"; "Merchant Name"; "City"; "Debit"] = Some d /\
    a_date d = 1 /\ a_desc d = 3 /\ a_amount d = 5 /\ a_loc d = Some 4 /\
    suggest d = "{_}, {date:" ++ detect_date_format ++ "}, {_}, {description}, {location}, {amount}".
Proof. eexists. vm_compute. repeat split; reflexivity. Qed.
