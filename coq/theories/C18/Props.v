(* C18 — a format string maps columns by position, and inspect's suggestion round-trips.
   Model: C18/Model.v (character-level hand model of parse_format_string, auto_detect_csv_format's
   header matching and cmd_inspect's suggestion builder) over Gen/C18Keywords.v (RESERVED_NAMES, default
   date formats and header keyword lists, regenerated from /repo on every run; the field regular
   expression, the "," separator and the helper _template_field_names are pinned by the translator).  Vocabulary: C18/Spec.v
   (arrangements = lists of column kinds of ANY length, spellings, render, maps_by_position).
   The tie between the model and the code is the correspondence check of harness/c18.py. *)
From Coq Require Import String Ascii List Bool NArith Arith.
From Tally Require Import Lib.Str Gen.C18Keywords C18.Model C18.Spec C18.Proofs.
Import ListNotations.
Open Scope string_scope.

(* CPython's string.Formatter().parse (used by the template validation) is library code: every theorem
   below holds for EVERY function fparse standing for it (None = it raises ValueError). *)
Definition formatter := string -> option (list (string * string)).

(* Every arrangement with exactly one date and one amount, at most one description / location and
   distinct valid custom names (= no registered name twice), written with any blanks around the
   tokens, any letter case, {_} or {*}, any (ignored) sign / format on the other columns, any date
   format without "," and "}", is accepted, and every column is found at exactly its position. *)
Theorem c18_positions :
  forall (fparse : formatter) (cols : list (kind * spelling)) (tmpl : option string),
    forallb col_ok cols = true ->
    NoDup (keylist (map fst cols)) ->
    In "date" (keylist (map fst cols)) -> In "amount" (keylist (map fst cols)) ->
    template_okb fparse (map fst cols) tmpl = true ->
    exists sp, parse_format fparse (render cols) tmpl = Ok sp /\ maps_by_position (map fst cols) tmpl sp.
Proof. exact positions. Qed.
Print Assumptions c18_positions.

(* no date, no amount, or neither {description} nor a custom capture: rejected, whatever else is there *)
Theorem c18_reject_missing :
  forall (fparse : formatter) (cols : list (kind * spelling)) (tmpl : option string),
    forallb col_ok cols = true ->
    (~ In "date" (keylist (map fst cols)) \/ ~ In "amount" (keylist (map fst cols)) \/
     (~ In KDesc (map fst cols) /\ forall n, ~ In (KCustom n) (map fst cols))) ->
    exists e, parse_format fparse (render cols) tmpl = Err e.
Proof. exact reject_missing. Qed.
Print Assumptions c18_reject_missing.

(* any name registered twice (two dates, two {description}, the same custom name in any letter case, ...) *)
Theorem c18_reject_duplicate :
  forall (fparse : formatter) (cols : list (kind * spelling)) (tmpl : option string),
    forallb col_ok cols = true ->
    ~ NoDup (keylist (map fst cols)) ->
    exists e, parse_format fparse (render cols) tmpl = Err e.
Proof. exact reject_duplicate. Qed.
Print Assumptions c18_reject_duplicate.

(* Full statement (a theorem about the tree since the fix "description template validation misses
   {name:spec} ..."): a non-empty template that names -- in str.format's sense (Spec.looks_up: plain {r},
   {r:spec}, {r!c}, {r.a}, {r[i]}, nested {a:{r}}) -- a column that is not a usable capture is rejected.
   History: before the fix the parser only scanned for plain {name} references and this statement was
   refuted by "{merchant} {nope:>10}" (finding C18/template-nonplain-reference-unchecked, now "fixed"). *)
Definition c18_reject_uncaptured_template_statement : Prop :=
  forall (fparse : formatter) (cols : list (kind * spelling)) (t r : string),
    forallb col_ok cols = true -> t <> "" ->
    looks_up fparse t r -> ~ In r (mode2_names (map fst cols)) ->
    exists e, parse_format fparse (render cols) (Some t) = Err e.

Theorem c18_reject_uncaptured_template : c18_reject_uncaptured_template_statement.
Proof. exact reject_uncaptured. Qed.
Print Assumptions c18_reject_uncaptured_template.

(* a non-empty template that is not a valid format string (the library raises ValueError) is rejected *)
Theorem c18_reject_malformed_template :
  forall (fparse : formatter) (cols : list (kind * spelling)) (t : string),
    forallb col_ok cols = true -> t <> "" -> fparse t = None ->
    exists e, parse_format fparse (render cols) (Some t) = Err e.
Proof. exact reject_malformed_template. Qed.
Print Assumptions c18_reject_malformed_template.

(* For every header row: if auto-detect succeeds, the string inspect suggests parses and selects the same
   date / description / amount / location columns and the same date format, with no sign mode. *)
Theorem c18_inspect_roundtrip :
  forall (fparse : formatter) (headers : list string) (d : detected),
    auto_detect headers = Some d ->
    exists sp, parse_format fparse (suggest d) None = Ok sp /\
      f_date sp = a_date d /\ f_date_format sp = a_date_format d /\ f_desc sp = Some (a_desc d) /\
      f_amount sp = a_amount d /\ f_loc sp = a_loc d /\ f_neg sp = false /\ f_abs sp = false /\
      f_custom sp = [] /\ f_extra sp = [].
Proof. exact inspect_roundtrip. Qed.
Print Assumptions c18_inspect_roundtrip.

(* ---- inspect's file-kind heuristic (commands/inspect.py _detect_file_format) and the early return ---- *)
(* csv.reader (used by the delimited-table guard) is library code: csvcount stands for "the field count of every
   row csv.reader yields for these lines" (None = csv.Error); every theorem holds for EVERY such function. *)
Definition csv_counter := list string -> option (list nat).

(* the decision table: the date indicator (>= 3 of the first 20 lines start with MM/DD/YYYY followed by two
   blanks) together with long uniform lines or >= 3 lines ending in a blank + amount -- unless the file is a
   delimited table *)
Theorem c18_fixed_width_decision :
  forall (csvcount : csv_counter) (all_lines : list string),
    is_fixed_width csvcount all_lines =
    (Nat.leb 3 (count_if date2_prefix (firstn 20 all_lines))
     && (uniform_long (firstn 20 all_lines) || Nat.leb 3 (count_if amt_at_end (firstn 20 all_lines)))
     && negb (looks_delimited csvcount all_lines))%bool.
Proof. exact fixed_width_decision. Qed.
Print Assumptions c18_fixed_width_decision.

(* Full statement (a theorem about the tree since the fix "inspect no longer reports a comma-delimited file as
   fixed-width").  It covers exactly the files for which looks_delimited holds: the non-blank, non-comment lines
   among the first 20 of the sample, with thousands separators (a comma between a digit and three digits)
   removed, are split by csv.reader into rows that all have the same number, at least 3, of fields.  For every
   such file with an auto-detectable header row, whatever its cells look like, inspect reports the detected
   columns and suggests a format string that parses back to them.
   History: before the fix a CSV with "01/02/2025  Thu" dates and right-aligned amounts was scored fixed-width
   (finding C18/csv-with-two-blank-dates-reported-fixed-width, now "fixed").  Ragged files (rows with differing
   field counts) are not delimited tables in this sense and are still subject to the score. *)
Definition c18_csv_is_reported_statement : Prop :=
  forall (csvcount : csv_counter) (fparse : formatter) (all_lines headers : list string) (d : detected),
    looks_delimited csvcount all_lines = true ->
    auto_detect headers = Some d ->
    inspect_report csvcount all_lines headers = RDetected d (suggest d) /\
    exists sp, parse_format fparse (suggest d) None = Ok sp /\
      f_date sp = a_date d /\ f_date_format sp = a_date_format d /\ f_desc sp = Some (a_desc d) /\
      f_amount sp = a_amount d /\ f_loc sp = a_loc d /\ f_neg sp = false /\ f_abs sp = false /\
      f_custom sp = [] /\ f_extra sp = [].

Theorem c18_csv_is_reported : c18_csv_is_reported_statement.
Proof. exact (fun csvcount fparse => csv_is_reported fparse csvcount). Qed.
Print Assumptions c18_csv_is_reported.

(* For EVERY file and header row: unless the fixed-width verdict fires, inspect reports exactly what
   auto-detection finds and the string it suggests parses back to those columns (end to end). *)
Theorem c18_inspect_end_to_end :
  forall (csvcount : csv_counter) (fparse : formatter) (all_lines headers : list string) (d : detected),
    is_fixed_width csvcount all_lines = false -> auto_detect headers = Some d ->
    inspect_report csvcount all_lines headers = RDetected d (suggest d) /\
    exists sp, parse_format fparse (suggest d) None = Ok sp /\
      f_date sp = a_date d /\ f_date_format sp = a_date_format d /\ f_desc sp = Some (a_desc d) /\
      f_amount sp = a_amount d /\ f_loc sp = a_loc d /\ f_neg sp = false /\ f_abs sp = false /\
      f_custom sp = [] /\ f_extra sp = [].
Proof. exact (fun csvcount fparse => inspect_end_to_end fparse csvcount). Qed.
Print Assumptions c18_inspect_end_to_end.

(* computable guards under which the verdict cannot fire, also for files that are not delimited tables:
   fewer than 3 of the first 20 lines start with a date + two blanks; no line contains two consecutive blanks *)
Theorem c18_not_fixed_width :
  forall (csvcount : csv_counter) (all_lines : list string),
    (looks_delimited csvcount all_lines = true \/ count_if date2_prefix (firstn 20 all_lines) < 3 \/
     (forall l, In l all_lines -> has_two_blanks l = false)) ->
    is_fixed_width csvcount all_lines = false.
Proof.
  intros c l [H|[H|H]];
    [now apply delimited_not_fixed|now apply few_dates_not_fixed|now apply no_two_blanks_not_fixed].
Qed.
Print Assumptions c18_not_fixed_width.

Definition c18_fixed_width_witness : list string :=
  ["Date,Ref,Description,Amount"; "01/02/2025  Thu,R1,ACME, 10.50"; "01/03/2025  Fri,R2,BOLT, 1,234.50";
   "01/04/2025  Sat,R3,CAFE, 12.50"].
(* what csv.reader answers on the (thousands-stripped) lines used below *)
Definition ex_csvcount : csv_counter := fun ls =>
  if list_eq_dec string_dec ls (table_lines c18_fixed_width_witness) then Some [4; 4; 4; 4]
  else if list_eq_dec string_dec ls ["01/02/2025  PURCHASE      -1234.00  5000.00"; "01/03/2025  COFFEE           -4.50  4995.50";
                                     "01/04/2025  PAYROLL        2000.00  6995.50"] then Some [1; 1; 1]
  else None.

Example c18_example_file_kind :
  fw_score c18_fixed_width_witness = 3 /\
  table_lines c18_fixed_width_witness =
    ["Date,Ref,Description,Amount"; "01/02/2025  Thu,R1,ACME, 10.50"; "01/03/2025  Fri,R2,BOLT, 1234.50";
     "01/04/2025  Sat,R3,CAFE, 12.50"] /\
  looks_delimited ex_csvcount c18_fixed_width_witness = true /\
  inspect_report ex_csvcount c18_fixed_width_witness (split_comma (hd "" c18_fixed_width_witness)) =
    RDetected {| a_date := 0; a_date_format := detect_date_format; a_desc := 2; a_amount := 3; a_loc := None |}
              ("{date:" ++ detect_date_format ++ "}, {_}, {description}, {amount}") /\
  (* a text statement (no field separators once thousands commas are ignored) is still fixed-width *)
  inspect_report ex_csvcount ["01/02/2025  PURCHASE      -1,234.00  5,000.00"; "01/03/2025  COFFEE           -4.50  4,995.50";
                              "01/04/2025  PAYROLL        2,000.00  6,995.50"] [] = RFixedWidth.
Proof. repeat split; vm_compute; reflexivity. Qed.

(* ---- non-vacuity ---- *)
(* what CPython's parser answers on the templates used below *)
Definition ex_fparse : formatter := fun t =>
  if String.eqb t "{merchant} ({type})" then Some [("merchant", ""); ("type", "")]
  else if String.eqb t "{merchant} {nope:>10}" then Some [("merchant", ""); ("nope", ">10")]
  else if String.eqb t "{merchant} {typo}" then Some [("merchant", ""); ("typo", "")]
  else if String.eqb t "{merchant:{w}}" then Some [("merchant", "{w}")]
  else if String.eqb t "{w}" then Some [("w", "")]
  else if String.eqb t "{merchant.real} {type[0]!r}" then Some [("merchant.real", ""); ("type[0]", "")]
  else if String.eqb t "{merchant" then None
  else Some [].

Definition ex_cols : list (kind * spelling) :=
  [ (KSkip, {| sp_lead := " "; sp_trail := ""; sp_mask := []; sp_star := true; sp_sign := SgNone; sp_spec := None |});
    (KDate (Some "%d.%m.%Y"), {| sp_lead := ""; sp_trail := "  "; sp_mask := [true; false; true]; sp_star := false;
                                 sp_sign := SgMinus; sp_spec := None |});
    (KCustom "merchant", {| sp_lead := " "; sp_trail := ""; sp_mask := [true]; sp_star := false; sp_sign := SgNone;
                            sp_spec := Some ">5" |});
    (KSkip, plain);
    (KAmount SgPlus, spaced);
    (KCustom "type", spaced);
    (KLoc, spaced) ].

Example c18_example_hypotheses :
  forallb col_ok ex_cols = true /\ template_okb ex_fparse (map fst ex_cols) (Some "{merchant} ({type})") = true /\
  template_okb ex_fparse (map fst ex_cols) (Some "{merchant.real} {type[0]!r}") = true /\
  render ex_cols = " {*},{-DaTe:%d.%m.%Y}  , {Merchant:>5},{_}, {+amount}, {type}, {location}" /\
  keylist (map fst ex_cols) = ["date"; "merchant"; "amount"; "type"; "location"].
Proof. vm_compute. repeat split; reflexivity. Qed.

Example c18_example_positions :
  parse_format ex_fparse (render ex_cols) (Some "{merchant} ({type})") =
  Ok {| f_date := 1; f_date_format := "%d.%m.%Y"; f_amount := 4; f_desc := None;
        f_custom := [("merchant", 2); ("type", 5)]; f_template := Some "{merchant} ({type})"; f_extra := [];
        f_loc := Some 6; f_neg := false; f_abs := true; f_skipped := [0; 3] |}.
Proof. vm_compute. reflexivity. Qed.

Example c18_example_looks_up :
  looks_up ex_fparse "{merchant} {nope:>10}" "nope" /\ looks_up ex_fparse "{merchant:{w}}" "w".
Proof.
  split.
  - apply (lu_field ex_fparse "{merchant} {nope:>10}" [("merchant", ""); ("nope", ">10")] "nope" ">10"); [reflexivity|].
    right. now left.
  - apply (lu_nested ex_fparse "{merchant:{w}}" [("merchant", "{w}")] "merchant" "{w}" "w"); [reflexivity|now left|discriminate|].
    apply (lu_field ex_fparse "{w}" [("w", "")] "w" ""); [reflexivity|now left].
Qed.

Example c18_example_rejects :
  (exists e, parse_format ex_fparse "{date}, {description}" None = Err e) /\
  (exists e, parse_format ex_fparse "{date}, {amount}, {Date:%Y}, {description}" None = Err e) /\
  (exists e, parse_format ex_fparse "{date}, {merchant}, {amount}" (Some "{merchant} {typo}") = Err e) /\
  parse_format ex_fparse "{date}, {merchant}, {amount}" (Some "{merchant} {nope:>10}") = Err (EUncaptured "nope") /\
  parse_format ex_fparse "{date}, {merchant}, {amount}" (Some "{merchant:{w}}") = Err (EUncaptured "w") /\
  parse_format ex_fparse "{date}, {merchant}, {amount}" (Some "{merchant") = Err EBadTemplate.
Proof. vm_compute. repeat split; try (eexists; reflexivity); reflexivity. Qed.

Example c18_example_inspect :
  exists d, auto_detect ["Card"; "Posting Date"; "Trans Date"; "Merchant Name"; "City"; "Debit"] = Some d /\
    a_date d = 1 /\ a_desc d = 3 /\ a_amount d = 5 /\ a_loc d = Some 4 /\
    suggest d = "{_}, {date:" ++ detect_date_format ++ "}, {_}, {description}, {location}, {amount}".
Proof. eexists. vm_compute. repeat split; reflexivity. Qed.
