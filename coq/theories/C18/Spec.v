(* C18/Spec.v — the vocabulary of the property (not a model of tally code): column arrangements,
   their spellings as format strings, and what "parsed to exactly those positions" means. *)
From Coq Require Import String Ascii List Bool NArith Arith.
From Tally Require Import Lib.Str Gen.C18Keywords C18.Model.
Import ListNotations.
Open Scope string_scope.

(* one column of an arrangement *)
Inductive kind :=
| KDate (fmt : option string)     (* {date} or {date:fmt} *)
| KDesc                           (* {description} *)
| KAmount (sg : sign)             (* {amount} {-amount} {+amount} *)
| KLoc                            (* {location} *)
| KCustom (name : string)         (* {name}: custom capture (lower-case name) *)
| KSkip.                          (* {_} or {*} *)

(* how one column is written: blanks around the token, letter case of the name, {*} vs {_},
   an (ignored) sign on a non-amount column, an (ignored) format on a non-date column *)
Record spelling := {
  sp_lead : string; sp_trail : string;
  sp_mask : list bool;            (* true = write this letter of the name in upper case *)
  sp_star : bool;
  sp_sign : sign;
  sp_spec : option string }.

Definition plain : spelling :=
  {| sp_lead := ""; sp_trail := ""; sp_mask := []; sp_star := false; sp_sign := SgNone; sp_spec := None |}.
Definition spaced : spelling :=
  {| sp_lead := " "; sp_trail := ""; sp_mask := []; sp_star := false; sp_sign := SgNone; sp_spec := None |}.

Fixpoint apply_mask (m : list bool) (s : string) : string :=
  match s, m with
  | String c r, b :: m' => String (if b then upper_char c else c) (apply_mask m' r)
  | _, _ => s
  end.

Definition sign_str (sg : sign) : string :=
  match sg with SgNone => "" | SgMinus => "-" | SgPlus => "+" end.
Definition spec_str (o : option string) : string :=
  match o with None => "" | Some f => String ch_colon f end.
Definition base_name (k : kind) (sp : spelling) : string :=
  match k with
  | KDate _ => "date" | KDesc => "description" | KAmount _ => "amount" | KLoc => "location"
  | KCustom n => n
  | KSkip => if sp_star sp then "*" else "_"
  end.
Definition tok_sign (k : kind) (sp : spelling) : sign := match k with KAmount sg => sg | _ => sp_sign sp end.
Definition tok_spec (k : kind) (sp : spelling) : option string := match k with KDate f => f | _ => sp_spec sp end.
Definition name_str (k : kind) (sp : spelling) : string := apply_mask (sp_mask sp) (base_name k sp).
Definition tok_body (k : kind) (sp : spelling) : string :=
  sign_str (tok_sign k sp) ++ (name_str k sp ++ spec_str (tok_spec k sp)).
Definition render_tok (c : kind * spelling) : string :=
  let (k, sp) := c in sp_lead sp ++ String ch_lbrace (tok_body k sp ++ String ch_rbrace (sp_trail sp)).

(* the format string that lists the columns in order, separated by commas *)
Fixpoint render (cols : list (kind * spelling)) : string :=
  match cols with
  | [] => ""
  | c :: r => match r with [] => render_tok c | _ :: _ => render_tok c ++ String ch_comma (render r) end
  end.

(* well-formed spellings: blanks are blanks; a format is non-empty and has no "," and no "}";
   a custom name is a non-empty lower-case \w+ word that is not reserved *)
Definition spec_ok (f : string) : bool :=
  (negb (is_empty f) && sall (fun c => negb (Ascii.eqb c ch_rbrace) && negb (Ascii.eqb c ch_comma)) f)%bool.
Definition ospec_ok (o : option string) : bool := match o with Some f => spec_ok f | None => true end.
Definition name_ok (n : string) : bool :=
  (negb (is_empty n) && sall is_word n && String.eqb (lower n) n && negb (is_reserved n))%bool.
Definition col_ok (c : kind * spelling) : bool :=
  let (k, sp) := c in
  (sall is_ws (sp_lead sp) && sall is_ws (sp_trail sp) && ospec_ok (sp_spec sp)
   && match k with KDate f => ospec_ok f | KCustom n => name_ok n | _ => true end)%bool.

(* the name under which a column is registered (None: skipped) *)
Definition key (k : kind) : option string :=
  match k with
  | KDate _ => Some "date" | KDesc => Some "description" | KAmount _ => Some "amount" | KLoc => Some "location"
  | KCustom n => Some n | KSkip => None
  end.
Fixpoint keylist (ks : list kind) : list string :=
  match ks with [] => [] | k :: r => match key k with Some n => n :: keylist r | None => keylist r end end.
Fixpoint cnames (ks : list kind) : list string :=
  match ks with [] => [] | KCustom n :: r => n :: cnames r | _ :: r => cnames r end.
Definition is_desc (k : kind) : bool := match k with KDesc => true | _ => false end.
Definition has_desc (ks : list kind) : bool := existsb is_desc ks.
(* the names a description template may use: the custom captures, when there is no {description} *)
Definition mode2_names (ks : list kind) : list string := if has_desc ks then [] else cnames ks.

(* the template is acceptable for the arrangement: without {description} there are custom captures and a
   non-empty template; a non-empty template is a valid format string (for the library's parser fparse) and
   every name it uses is a usable capture *)
Definition template_okb (fparse : string -> option (list (string * string)))
           (ks : list kind) (tmpl : option string) : bool :=
  ((has_desc ks || (negb (match cnames ks with [] => true | _ => false end) && truthy tmpl))
   && match tmpl with
      | Some t => is_empty t ||
                  match template_names fparse t with
                  | Some names => forallb (fun r => mem r (mode2_names ks)) names
                  | None => false
                  end
      | None => true
      end)%bool.

(* "the template names column r", in str.format's sense and relative to the library's field parser:
   r is the argument name (field name up to the first "." or "[") of a replacement field of the
   template, or of a replacement field nested in one of its format specs ({a:{r}}), at any depth.
   (Positional / auto-numbered fields count as the names "0", "" ...: an over-approximation.) *)
Inductive looks_up (fparse : string -> option (list (string * string))) : string -> string -> Prop :=
| lu_field t fields fld spec :
    fparse t = Some fields -> In (fld, spec) fields -> looks_up fparse t (arg_name fld)
| lu_nested t fields fld spec r :
    fparse t = Some fields -> In (fld, spec) fields -> spec <> "" -> looks_up fparse spec r ->
    looks_up fparse t r.

Definition default_fmt (f : option string) : string := match f with Some x => x | None => default_date_format end.
Definition sign_flags (sg : sign) : bool * bool :=
  (match sg with SgMinus => true | _ => false end, match sg with SgPlus => true | _ => false end).

(* "parsed to exactly those column positions, date format and sign mode" *)
Definition maps_by_position (ks : list kind) (tmpl : option string) (sp : fspec) : Prop :=
  (exists f, nth_error ks (f_date sp) = Some (KDate f) /\ f_date_format sp = default_fmt f) /\
  (exists sg, nth_error ks (f_amount sp) = Some (KAmount sg) /\ (f_neg sp, f_abs sp) = sign_flags sg) /\
  (forall i, f_desc sp = Some i <-> nth_error ks i = Some KDesc) /\
  (forall i, f_loc sp = Some i <-> nth_error ks i = Some KLoc) /\
  (forall n i, In (n, i) (f_custom sp ++ f_extra sp) <-> nth_error ks i = Some (KCustom n)) /\
  (In KDesc ks -> f_custom sp = []) /\ (~ In KDesc ks -> f_extra sp = []) /\
  (forall i, In i (f_skipped sp) <-> nth_error ks i = Some KSkip) /\
  f_template sp = tmpl.

(* ---- inspect: the arrangement a detected spec stands for ---- *)
Definition kind_at (d : detected) (i : nat) : kind :=
  if Nat.eqb i (a_date d) then KDate (Some (a_date_format d))
  else if Nat.eqb i (a_desc d) then KDesc
  else if Nat.eqb i (a_amount d) then KAmount SgNone
  else if opt_eqb (a_loc d) i then KLoc
  else KSkip.
