"""Mutation self-test for C01/C02/C09: applies each seeded change to a scratch copy of /repo under /tmp, runs the
relevant checks against it through VERIF_REPO, replays every reported counterexample on the mutant and on /repo, and
removes the copy.  Usage: python3 tools/engine_mutants.py [mutant names...]  (run from /verif; never touches /repo)."""
import os, shutil, subprocess, sys, json, re, glob
MUTS = {
 'M1-drop-first-is-none': ('src/tally/merchant_engine.py', "if first_category_rule is None and rule.is_categorization_rule:", "if rule.is_categorization_rule:", ['C01']),
 'M2-drop-is-categorization-guard': ('src/tally/merchant_engine.py', "if first_category_rule is None and rule.is_categorization_rule:", "if first_category_rule is None:", ['C01', 'C02']),
 'M3-tags-only-from-winner': ('src/tally/merchant_engine.py', "        result.tags = all_tags\n", "        result.tags = (self._resolve_tags(result.matched_rule, transaction, global_variables, data_sources) if result.matched_rule else set())\n", ['C02', 'C09']),
 'M4-min-instead-of-max': ('src/tally/merchant_engine.py', "                    winner = max(category_rules, key=lambda x: x[1])", "                    winner = min(category_rules, key=lambda x: x[1])", ['C09']),
 'M5-specificity-key-reordered': ('src/tally/merchant_engine.py', "    return (rule.priority, pattern_count, field_count, pattern_length)", "    return (pattern_count, rule.priority, field_count, pattern_length)", ['C09']),
 'M6-reversed-tie-break': ('src/tally/merchant_engine.py', "                    winner = max(category_rules, key=lambda x: x[1])", "                    winner = max(reversed(category_rules), key=lambda x: x[1])", ['C09']),
 'M7-skip-transforms-with-cached-engine': ('src/tally/merchant_utils.py', "    if transforms:\n        apply_transforms(transaction, transforms)", "    if transforms and _cached_engine is None:\n        apply_transforms(transaction, transforms)", ['C01']),
 'M8-legacy-drop-result-is-none': ('src/tally/merchant_utils.py', "            if result_merchant is None and category:", "            if category:", ['C01']),
 'M9-tags-not-lowercased': ('src/tally/merchant_engine.py', "                resolved.add(tag.lower())", "                resolved.add(tag)", ['C02']),
 'M10-date-range-exclusive': ('src/tally/modifier_parser.py', "        return condition.start_date <= txn_date <= condition.end_date", "        return condition.start_date <= txn_date < condition.end_date", ['C01']),
 'M11-subcategory-min': ('src/tally/merchant_engine.py', "                    winner = max(subcategory_rules, key=lambda x: x[1])", "                    winner = min(subcategory_rules, key=lambda x: x[1])", ['C09']),
 'M12-legacy-tags-only-first': ('src/tally/merchant_utils.py', "            if tags:\n                resolved_tags = _resolve_dynamic_tags(tags, transaction)", "            if tags and result_merchant is None:\n                resolved_tags = _resolve_dynamic_tags(tags, transaction)", ['C02']),
}
which = sys.argv[1:] or list(MUTS)
for name in which:
    path, old, new, checks = MUTS[name]
    d = f'/tmp/tally-mut-{name}'
    shutil.rmtree(d, ignore_errors=True)
    shutil.copytree('/repo', d, ignore=shutil.ignore_patterns('.git'))
    s = open(os.path.join(d, path)).read()
    assert s.count(old) >= 1, (name, 'pattern not found')
    open(os.path.join(d, path), 'w').write(s.replace(old, new, 1))
    for chk in checks:
        env = dict(os.environ, VERIF_REPO=d)
        p = subprocess.run(['./check', chk, 'quick'], cwd='/verif', env=env, capture_output=True, text=True)
        lines = [l for l in p.stdout.splitlines() if l.startswith(('VIOLATION', '['))]
        print(f'### {name} / {chk}: exit={p.returncode}')
        for l in lines:
            print('   ', l[:200])
            m = re.search(r'replay=(\S+)', l)
            if m:
                o = json.load(open(m.group(1)))
                det = o.get('detail') or {}
                print('       oracle=%s kind=%s why=%s' % (o.get('oracle'), o.get('kind'), (det.get('why') if isinstance(det, dict) else str(det))[:140] if det else (o.get('obligation'))))
                if o.get('kind') == 'counterexample':
                    r = subprocess.run(['./check', chk, '--replay', m.group(1)], cwd='/verif', env=env, capture_output=True, text=True)
                    print('       replay on mutant: exit=%d; on /repo: exit=%d' % (r.returncode, subprocess.run(['./check', chk, '--replay', m.group(1)], cwd='/verif', capture_output=True, text=True).returncode))
                    if o.get('broken'):
                        print('       broken:', json.dumps(o['broken'])[:300])
        ev = json.load(open(f'/verif/evidence/{chk}.json'))['coverage']
        print('       direct:', ev.get('direct_oracle_failures'), 'model-disagreements:', ev.get('model_vs_impl_disagreements'), 'translation:', ev.get('translation_failures'))
    shutil.rmtree(d, ignore_errors=True)
