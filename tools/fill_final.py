#!/usr/bin/env python3
"""fill_final.py <log...> — record the outcome lines of tools/test_all_seeds.sh ("<seed> <check> <OUTCOME…>") as
check_result.final in seeded/<seed>/meta.json (later logs override earlier ones)."""
import json, os, sys
HERE = os.path.dirname(os.path.dirname(os.path.abspath(__file__)))
n = 0
for log in sys.argv[1:]:
    for l in open(log):
        p = l.split(None, 2)
        if len(p) < 3 or not os.path.exists(os.path.join(HERE, 'seeded', p[0], 'meta.json')):
            continue
        mp = os.path.join(HERE, 'seeded', p[0], 'meta.json')
        m = json.load(open(mp))
        cr = m.get('check_result') if isinstance(m.get('check_result'), dict) else {}
        cr['final'] = p[2].strip()
        cr['final_cmd'] = f'tools/test_all_seeds.sh {p[0]}'
        m['check_result'] = cr
        json.dump(m, open(mp, 'w'), indent=1)
        n += 1
print(n, 'outcomes recorded')
