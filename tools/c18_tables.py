"""C18 table translator (fail closed): reads literals of format_parser.py / parsers.py with the
`ast` module and renders them as Gallina constants (Gen/C18Keywords.v).  It never interprets code:
it only looks for the exact syntactic shapes listed below and raises Untranslatable otherwise.

  format_parser.RESERVED_NAMES            module-level set literal of str
  parse_format_string:  field_pattern = re.compile(r'...')     (pinned: the hand model of the matcher in
                                                                  C18/Model.v is for exactly this text)
                        refs = _template_field_names(description_template)  (the only template scan)
  _template_field_names: pinned as a whole (AST without the docstring): names of string.Formatter().parse
                        fields, cut at the first "." or "[", recursing into non-empty format specs
                        parts = [p.strip() for p in format_str.split(',')]   (pinned separator)
                        date_format = '<default>'               first assignment in the function
  parsers.auto_detect_csv_format: DATE_/DESC_/AMOUNT_/LOCATION_PATTERNS list literals of str,
                        the date_format='...' keyword of the returned FormatSpec(...)
"""
import ast

FIELD_PATTERN = r'\{([-+]?)(\w+|\*)(?::([^}]+))?\}'
HELPER_REFERENCE = '''
def _template_field_names(template: str) -> list:
    names = []
    for _, field_name, format_spec, _ in string.Formatter().parse(template):
        if field_name is None:
            continue
        names.append(re.split(r'[.\\[]', field_name, maxsplit=1)[0])
        if format_spec:
            names.extend(_template_field_names(format_spec))
    return names
'''


def _body_dump(fn):
    body = list(fn.body)
    if body and isinstance(body[0], ast.Expr) and isinstance(body[0].value, ast.Constant) and isinstance(body[0].value.value, str):
        body = body[1:]
    return [ast.dump(n) for n in body], ast.dump(fn.args)


class Untranslatable(Exception):
    pass


def coq_str(s):
    b = s.encode('utf-8')
    if all(32 <= c < 127 for c in b):
        return '"' + b.decode('ascii').replace('"', '""') + '"'
    return '(sbytes [' + ';'.join(str(c) for c in b) + ']%N)'


def _fn(tree, name, path):
    for n in tree.body:
        if isinstance(n, ast.FunctionDef) and n.name == name:
            return n
    raise Untranslatable(f'{path}: function {name} not found')


def _strs(node, what):
    if not isinstance(node, (ast.List, ast.Set, ast.Tuple)):
        raise Untranslatable(f'{what}: expected a list/set literal, got {type(node).__name__}')
    out = []
    for e in node.elts:
        if not (isinstance(e, ast.Constant) and isinstance(e.value, str)):
            raise Untranslatable(f'{what}: non-string element')
        out.append(e.value)
    return out


def _assigns(fn, name):
    out = []
    for n in ast.walk(fn):
        if isinstance(n, ast.Assign) and len(n.targets) == 1 and isinstance(n.targets[0], ast.Name) \
                and n.targets[0].id == name:
            out.append(n)
    return sorted(out, key=lambda n: n.lineno)


def read_tables(format_parser_py, parsers_py):
    t = {}
    tree = ast.parse(open(format_parser_py, encoding='utf-8').read())
    res = [n for n in tree.body if isinstance(n, ast.Assign) and len(n.targets) == 1 and
           isinstance(n.targets[0], ast.Name) and n.targets[0].id == 'RESERVED_NAMES']
    if len(res) != 1:
        raise Untranslatable('format_parser.py: RESERVED_NAMES must be assigned exactly once at module level')
    t['reserved'] = sorted(_strs(res[0].value, 'RESERVED_NAMES'))
    fn = _fn(tree, 'parse_format_string', 'format_parser.py')
    # pinned regex literals
    pats = []
    for n in ast.walk(fn):
        if isinstance(n, ast.Call) and isinstance(n.func, ast.Attribute) and isinstance(n.func.value, ast.Name) \
                and n.func.value.id == 're':
            if not (n.args and isinstance(n.args[0], ast.Constant) and isinstance(n.args[0].value, str)):
                raise Untranslatable(f'format_parser.py:{n.lineno}: re.{n.func.attr} without a literal pattern')
            pats.append((n.func.attr, n.args[0].value, n.lineno))
    want = {('compile', FIELD_PATTERN)}
    got = {(a, p) for a, p, _ in pats}
    if got != want:
        raise Untranslatable(f'format_parser.py: regular expressions changed: {sorted(got)} (the matcher model in '
                             f'C18/Model.v is written for {sorted(want)})')
    # the template scan: exactly one call _template_field_names(description_template), and the helper is the pinned one
    calls = [n for n in ast.walk(fn) if isinstance(n, ast.Call) and isinstance(n.func, ast.Name)
             and n.func.id == '_template_field_names']
    if len(calls) != 1 or len(calls[0].args) != 1 or not isinstance(calls[0].args[0], ast.Name) \
            or calls[0].args[0].id != 'description_template' or calls[0].keywords:
        raise Untranslatable('format_parser.py: parse_format_string must scan the template with exactly one '
                             '_template_field_names(description_template)')
    helper = _fn(tree, '_template_field_names', 'format_parser.py')
    ref = _fn(ast.parse(HELPER_REFERENCE), '_template_field_names', 'reference')
    if _body_dump(helper) != _body_dump(ref):
        raise Untranslatable('format_parser.py: _template_field_names differs from the pinned helper (string.Formatter().parse '
                             'fields, name cut at "." or "[", recursion into non-empty format specs)')
    # pinned separator: format_str.split(',')
    seps = [n for n in ast.walk(fn) if isinstance(n, ast.Call) and isinstance(n.func, ast.Attribute)
            and n.func.attr == 'split']
    if len(seps) != 1 or len(seps[0].args) != 1 or not isinstance(seps[0].args[0], ast.Constant) \
            or seps[0].args[0].value != ',':
        raise Untranslatable("format_parser.py: expected exactly one .split(',') in parse_format_string")
    df = _assigns(fn, 'date_format')
    if not df or not (isinstance(df[0].value, ast.Constant) and isinstance(df[0].value.value, str)):
        raise Untranslatable('format_parser.py: default date_format literal not found')
    t['default_date_format'] = df[0].value.value

    tree2 = ast.parse(open(parsers_py, encoding='utf-8').read())
    fn2 = _fn(tree2, 'auto_detect_csv_format', 'parsers.py')
    for key, var in [('date_patterns', 'DATE_PATTERNS'), ('desc_patterns', 'DESC_PATTERNS'),
                     ('amount_patterns', 'AMOUNT_PATTERNS'), ('location_patterns', 'LOCATION_PATTERNS')]:
        a = _assigns(fn2, var)
        if len(a) != 1:
            raise Untranslatable(f'parsers.py: {var} must be assigned exactly once in auto_detect_csv_format')
        t[key] = _strs(a[0].value, var)
    rets = [n for n in ast.walk(fn2) if isinstance(n, ast.Return) and isinstance(n.value, ast.Call)
            and isinstance(n.value.func, ast.Name) and n.value.func.id == 'FormatSpec']
    if len(rets) != 1:
        raise Untranslatable('parsers.py: auto_detect_csv_format must return FormatSpec(...) exactly once')
    kws = {k.arg: k.value for k in rets[0].value.keywords}
    if rets[0].value.args or set(kws) != {'date_column', 'date_format', 'description_column', 'amount_column',
                                           'location_column', 'has_header'}:
        raise Untranslatable(f'parsers.py: unexpected FormatSpec(...) arguments in auto_detect_csv_format: {sorted(kws)}')
    want_names = {'date_column': 'date_col', 'description_column': 'desc_col', 'amount_column': 'amount_col',
                  'location_column': 'location_col'}
    for k, v in want_names.items():
        if not (isinstance(kws[k], ast.Name) and kws[k].id == v):
            raise Untranslatable(f'parsers.py: FormatSpec({k}=...) is not the variable {v}')
    if not (isinstance(kws['date_format'], ast.Constant) and isinstance(kws['date_format'].value, str)):
        raise Untranslatable('parsers.py: FormatSpec(date_format=...) is not a string literal')
    t['detect_date_format'] = kws['date_format'].value
    return t


def render(t):
    def lst(xs):
        return '[' + '; '.join(coq_str(x) for x in xs) + ']'
    return f'''(* Gen/C18Keywords.v — REGENERATED on every run by tools/c18_tables.py from
   /repo/src/tally/format_parser.py and /repo/src/tally/parsers.py. Do not edit. *)
From Coq Require Import String List NArith Ascii.
Import ListNotations.
Open Scope string_scope.
Definition sbytes (l : list N) : string := fold_right (fun n s => String (ascii_of_N n) s) EmptyString l.

(* format_parser.RESERVED_NAMES (sorted) *)
Definition reserved_names : list string := {lst(t['reserved'])}.
(* parse_format_string: date_format default *)
Definition default_date_format : string := {coq_str(t['default_date_format'])}.
(* parsers.auto_detect_csv_format keyword lists, source order *)
Definition date_patterns : list string := {lst(t['date_patterns'])}.
Definition desc_patterns : list string := {lst(t['desc_patterns'])}.
Definition amount_patterns : list string := {lst(t['amount_patterns'])}.
Definition location_patterns : list string := {lst(t['location_patterns'])}.
(* FormatSpec(date_format=...) returned by auto_detect_csv_format *)
Definition detect_date_format : string := {coq_str(t['detect_date_format'])}.
'''


def translate(src_dir):
    import os
    return render(read_tables(os.path.join(src_dir, 'format_parser.py'), os.path.join(src_dir, 'parsers.py')))


if __name__ == '__main__':
    import sys
    print(translate(sys.argv[1] if len(sys.argv) > 1 else '/repo/src/tally'))
