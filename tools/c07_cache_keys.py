#!/usr/bin/env python3
"""C07 extractor (fail closed): re-reads from tally's source, on every run, the facts the cache model
of coq/theories/C07/Model.v rests on, and renders them as Gen/C07CacheKeys.v.

It never interprets code.  It enumerates EVERY syntactic use of the three module-level state
variables and accepts only the shapes it knows:

  expr_parser._expression_cache   `K in C` / `C[K]` / `C[K] = tree`  inside parse_expression, where K is
                                  the bare parameter name (never re-assigned) and `tree` is
                                  `ast.parse(K, mode='eval')` followed by `validate_ast(tree)`
  expr_parser._regex_cache        `K not in C` / `C[K] = re.compile(K, <re.X | re.Y constant flags>)` /
                                  `C[K]`  inside _fn_regex, where K is a bare local whose only
                                  assignments are `text, K = <text>, args[i]`
  merchant_utils._cached_engine   module-level None; clear_engine_cache: None; get_all_rules:
                                  `= engine` on the successful .rules branch, optionally `= None` as the
                                  first statement after `global` (the proposed fix); read by
                                  get_cached_engine (return) and by normalize_merchant
                                  (`if _cached_engine is not None:` + `.match(...)`, before the loop
                                  over the `rules` argument)
  merchant_utils._reported_load_errors / _report_rules_load_error   (optional) the show-once stderr report of
                                  .rules load errors: set tested/added-to only inside the report function, cleared by
                                  clear_engine_cache; the function returns nothing and prints to sys.stderr; called
                                  only as an expression statement inside except handlers
  MerchantEngine.parse            leading `self.X = []|{}` statements (what a re-parse resets) and the
                                  attributes __init__ creates

Anything else (a `.lower()` on the key, a `.clear()`, a `global`, a new writer, a changed flag expression …)
raises Unknown -> the check reports a translation failure (broken tie)."""
import ast
import os
import sys


class Unknown(Exception):
    pass


def parents(tree):
    par = {}
    for n in ast.walk(tree):
        for c in ast.iter_child_nodes(n):
            par[c] = n
    return par


def enclosing_function(node, par):
    n = node
    while n in par:
        n = par[n]
        if isinstance(n, (ast.FunctionDef, ast.AsyncFunctionDef)):
            return n
    return None


def src(n):
    return ast.unparse(n)


def module_dict_def(tree, name):
    defs = []
    for st in tree.body:
        if isinstance(st, ast.AnnAssign) and isinstance(st.target, ast.Name) and st.target.id == name:
            defs.append(st.value)
        elif isinstance(st, ast.Assign) and any(isinstance(t, ast.Name) and t.id == name for t in st.targets):
            defs.append(st.value)
    if len(defs) != 1:
        raise Unknown(f'{name}: expected exactly one module-level definition, found {len(defs)}')
    return defs[0]


def no_global(tree, names):
    for n in ast.walk(tree):
        if isinstance(n, (ast.Global, ast.Nonlocal)) and set(n.names) & set(names):
            raise Unknown(f'global/nonlocal declaration of {sorted(set(n.names) & set(names))} (cache rebinding)')
    for n in ast.walk(tree):
        if isinstance(n, ast.Attribute) and n.attr in names:
            raise Unknown(f'attribute access to {n.attr} (cache reached from outside its module)')


def cache_uses(tree, par, cache):
    """[(lineno, function name, shape, key source, extra node)] for every Name node `cache` except its definition."""
    uses = []
    for n in ast.walk(tree):
        if not (isinstance(n, ast.Name) and n.id == cache):
            continue
        p = par.get(n)
        if isinstance(p, (ast.AnnAssign, ast.Assign)) and par.get(p) is tree:
            continue  # the module-level definition
        fn = enclosing_function(n, par)
        if fn is None:
            raise Unknown(f'{cache} used at module level, line {n.lineno}')
        if isinstance(p, ast.Compare) and len(p.ops) == 1 and p.comparators == [n] and isinstance(p.ops[0], (ast.In, ast.NotIn)):
            shape = 'contains' if isinstance(p.ops[0], ast.In) else 'not-contains'
            uses.append((n.lineno, n.col_offset, fn, shape, p.left, None))
        elif isinstance(p, ast.Subscript) and p.value is n:
            if isinstance(p.ctx, ast.Load):
                uses.append((n.lineno, n.col_offset, fn, 'load', p.slice, None))
            elif isinstance(p.ctx, ast.Store):
                a = par.get(p)
                if not (isinstance(a, ast.Assign) and a.targets == [p]):
                    raise Unknown(f'{cache}: unrecognised store at line {n.lineno}: {src(a) if a else "?"}')
                uses.append((n.lineno, n.col_offset, fn, 'store', p.slice, a.value))
            else:
                raise Unknown(f'{cache}: entry deleted at line {n.lineno}')
        else:
            raise Unknown(f'{cache}: unrecognised use at line {n.lineno}: {src(p) if p is not None else "?"}')
    uses.sort(key=lambda u: (u[0], u[1]))
    return uses


def bare_key(uses, cache):
    keys = set()
    for _, _, fn, shape, key, _ in uses:
        if not isinstance(key, ast.Name):
            raise Unknown(f'{cache}: key expression is not the bare argument: `{src(key)}` ({shape}, line {key.lineno})')
        keys.add(key.id)
    if len(keys) != 1:
        raise Unknown(f'{cache}: keyed by several different names {sorted(keys)}')
    fns = {u[2].name for u in uses}
    if len(fns) != 1:
        raise Unknown(f'{cache}: used in several functions {sorted(fns)}')
    return keys.pop(), uses[0][2]


def stores_to(fn, name):
    """Every binding of local `name` inside fn (parameters excluded): list of the binding statements."""
    out = []
    for n in ast.walk(fn):
        if isinstance(n, ast.Name) and n.id == name and isinstance(n.ctx, (ast.Store, ast.Del)):
            out.append(n)
        if isinstance(n, (ast.FunctionDef, ast.Lambda)) and n is not fn:
            a = n.args
            if name in [x.arg for x in a.args + a.kwonlyargs + a.posonlyargs]:
                raise Unknown(f'{fn.name}: nested function shadows {name}')
    return out


def expr_cache_facts(tree, par):
    cache = '_expression_cache'
    d = module_dict_def(tree, cache)
    if not (isinstance(d, ast.Dict) and not d.keys):
        raise Unknown(f'{cache} is not initialised to {{}}')
    uses = cache_uses(tree, par, cache)
    key, fn = bare_key(uses, cache)
    params = [a.arg for a in fn.args.args]
    is_param = bool(params) and params[0] == key and not fn.args.posonlyargs
    if stores_to(fn, key):
        raise Unknown(f'{fn.name}: the key variable `{key}` is re-assigned before/after use')
    shapes = []
    stored = None
    for _, _, _, shape, k, val in uses:
        if shape == 'store':
            if not isinstance(val, ast.Name):
                raise Unknown(f'{cache}: stored value is not a plain local: {src(val)}')
            stored = val.id
            shapes.append(f'store[{k.id}]={val.id}')
        else:
            shapes.append(f'{shape}[{k.id}]')
    if stored is None:
        raise Unknown(f'{cache}: nothing is ever stored')
    binds = stores_to(fn, stored)
    if len(binds) != 1:
        raise Unknown(f'{fn.name}: `{stored}` bound {len(binds)} times')
    a = par[binds[0]]
    if not (isinstance(a, ast.Assign) and a.targets == [binds[0]] and isinstance(a.value, ast.Call)):
        raise Unknown(f'{fn.name}: unrecognised binding of `{stored}`: {src(a)}')
    call = a.value
    if not (src(call.func) == 'ast.parse' and len(call.args) == 1 and isinstance(call.args[0], ast.Name)
            and call.args[0].id == key):
        raise Unknown(f'{fn.name}: `{stored}` is not ast.parse({key}, …): {src(call)}')
    compute = src(call)
    # every call that receives `stored` between its binding and the store
    validators = []
    for n in ast.walk(fn):
        if isinstance(n, ast.Call) and any(isinstance(x, ast.Name) and x.id == stored for x in n.args) and n is not call:
            validators.append((n.lineno, src(n)))
    validators.sort()
    store_line = [u[0] for u in uses if u[3] == 'store'][0]
    before = [v for ln, v in validators if a.lineno < ln < store_line]
    if before != [f'validate_ast({stored})']:
        raise Unknown(f'{fn.name}: between parse and store expected exactly validate_ast({stored}), found {before}')
    return {'name': cache, 'fn': fn.name, 'key': key, 'is_param': is_param,
            'compute': compute + '; ' + before[0], 'uses': shapes}


def regex_cache_facts(tree, par):
    cache = '_regex_cache'
    d = module_dict_def(tree, cache)
    if not (isinstance(d, ast.Dict) and not d.keys):
        raise Unknown(f'{cache} is not initialised to {{}}')
    uses = cache_uses(tree, par, cache)
    key, fn = bare_key(uses, cache)
    shapes, flags, compute = [], None, None
    for _, _, _, shape, k, val in uses:
        if shape == 'store':
            if not (isinstance(val, ast.Call) and src(val.func) == 're.compile' and len(val.args) == 2 and not val.keywords
                    and isinstance(val.args[0], ast.Name) and val.args[0].id == key):
                raise Unknown(f'{cache}: stored value is not re.compile({key}, <flags>): {src(val)}')
            fl = val.args[1]
            parts = []

            def flat(e):
                if isinstance(e, ast.BinOp) and isinstance(e.op, ast.BitOr):
                    flat(e.left)
                    flat(e.right)
                elif isinstance(e, ast.Attribute) and isinstance(e.value, ast.Name) and e.value.id == 're' and e.attr.isupper():
                    parts.append('re.' + e.attr)
                else:
                    raise Unknown(f'{cache}: compile flags are not a constant of re.X flags: {src(fl)}')
            flat(fl)
            flags = sorted(parts)
            compute = f're.compile({key}, <flags>)'
            shapes.append(f'store[{k.id}]=compile')
        else:
            shapes.append(f'{shape}[{k.id}]')
    if flags is None:
        raise Unknown(f'{cache}: nothing is ever stored')
    sources = set()
    for b in stores_to(fn, key):
        tup = par.get(b)
        a = par.get(tup)
        if not (isinstance(tup, ast.Tuple) and isinstance(a, ast.Assign) and a.targets == [tup]
                and isinstance(a.value, ast.Tuple) and len(a.value.elts) == len(tup.elts)):
            raise Unknown(f'{fn.name}: unrecognised binding of `{key}`: {src(a or tup or b)}')
        v = a.value.elts[tup.elts.index(b)]
        if not (isinstance(v, ast.Subscript) and isinstance(v.value, ast.Name) and v.value.id == 'args'
                and isinstance(v.slice, ast.Constant) and isinstance(v.slice.value, int)):
            raise Unknown(f'{fn.name}: `{key}` is not an unmodified argument: {src(v)}')
        sources.add(src(v))
    if key in [a.arg for a in fn.args.args]:
        sources.add('<parameter>')
    if not sources:
        raise Unknown(f'{fn.name}: `{key}` is never bound')
    if not (fn.args.vararg and fn.args.vararg.arg == 'args'):
        raise Unknown(f'{fn.name}: no *args')
    return {'name': cache, 'fn': fn.name, 'key': key, 'sources': sorted(sources), 'compute': compute,
            'flags': flags, 'uses': shapes}


def engine_facts(tree):
    cls = [n for n in tree.body if isinstance(n, ast.ClassDef) and n.name == 'MerchantEngine']
    if len(cls) != 1:
        raise Unknown('class MerchantEngine not found')
    meth = {n.name: n for n in cls[0].body if isinstance(n, ast.FunctionDef)}
    if 'parse' not in meth or '__init__' not in meth:
        raise Unknown('MerchantEngine.parse/__init__ not found')

    def self_attr_target(st):
        t = None
        if isinstance(st, ast.AnnAssign):
            t, v = st.target, st.value
        elif isinstance(st, ast.Assign) and len(st.targets) == 1:
            t, v = st.targets[0], st.value
        if isinstance(t, ast.Attribute) and isinstance(t.value, ast.Name) and t.value.id == 'self':
            return t.attr, v
        return None

    init_attrs = []
    for st in meth['__init__'].body:
        r = self_attr_target(st)
        if r:
            init_attrs.append(r[0])
        elif isinstance(st, ast.Expr) and isinstance(st.value, ast.Constant):
            continue
        else:
            raise Unknown(f'MerchantEngine.__init__: unrecognised statement {src(st)}')
    resets = []
    body = list(meth['parse'].body)
    if body and isinstance(body[0], ast.Expr) and isinstance(body[0].value, ast.Constant):
        body = body[1:]
    for st in body:
        r = self_attr_target(st)
        if not r:
            break
        attr, v = r
        empty = (isinstance(v, ast.List) and not v.elts) or (isinstance(v, ast.Dict) and not v.keys)
        if not empty:
            raise Unknown(f'MerchantEngine.parse: self.{attr} reset to a non-empty value {src(v)}')
        resets.append(attr)
    # any other attribute created anywhere on self in the class must be one of __init__'s
    for n in ast.walk(cls[0]):
        if isinstance(n, ast.Attribute) and isinstance(n.value, ast.Name) and n.value.id == 'self' \
                and isinstance(n.ctx, ast.Store) and n.attr not in init_attrs:
            raise Unknown(f'MerchantEngine: attribute self.{n.attr} assigned outside __init__ (line {n.lineno})')
    return {'resets': resets, 'init': init_attrs}


REPORT_FN = '_report_rules_load_error'
REPORT_SET = '_reported_load_errors'


def handler_falls_through(h):
    """`except …: pass`  or  `except Exception as e: _report_rules_load_error(rules_path, e)` (value discarded)"""
    body = h.body
    if [type(s).__name__ for s in body] == ['Pass']:
        return True
    if len(body) == 1 and isinstance(body[0], ast.Expr) and isinstance(body[0].value, ast.Call):
        c = body[0].value
        return (isinstance(c.func, ast.Name) and c.func.id == REPORT_FN and h.name is not None and not c.keywords
                and [src(a) for a in c.args] == ['rules_path', h.name])
    return False


def load_error_report_facts(tree, par):
    """The show-once load-error report (ADOPT-C17): process-level state with history.  Accepted only in the shape
    in which it can influence nothing but stderr: a module-level set that is tested/added-to inside the report
    function and cleared by clear_engine_cache; the function returns nothing and prints to sys.stderr; every call
    is an expression statement inside an except handler."""
    fns = [n for n in tree.body if isinstance(n, ast.FunctionDef) and n.name == REPORT_FN]
    uses = [n for n in ast.walk(tree) if isinstance(n, ast.Name) and n.id == REPORT_SET]
    calls = [n for n in ast.walk(tree) if isinstance(n, ast.Call) and isinstance(n.func, ast.Name) and n.func.id == REPORT_FN]
    others = [n for n in ast.walk(tree) if isinstance(n, ast.Name) and n.id == REPORT_FN and not (isinstance(par.get(n), ast.Call) and par[n].func is n)]
    if not fns and not uses and not calls and not others:
        return {'present': False, 'facts': []}
    if len(fns) != 1 or others:
        raise Unknown(f'{REPORT_FN}: defined {len(fns)} times / referenced other than by a call')
    fn = fns[0]
    if [a.arg for a in fn.args.args] != ['rules_path', 'error'] or fn.args.vararg or fn.args.kwarg or fn.decorator_list:
        raise Unknown(f'{REPORT_FN}: unexpected signature')
    body = [st for st in fn.body if not (isinstance(st, ast.Expr) and isinstance(st.value, ast.Constant))]
    ok = (len(body) == 2 and isinstance(body[0], ast.Assign) and src(body[0]) == 'key = (str(rules_path), str(error))'
          and isinstance(body[1], ast.If) and src(body[1].test) == f'key not in {REPORT_SET}' and not body[1].orelse
          and len(body[1].body) == 2 and src(body[1].body[0]) == f'{REPORT_SET}.add(key)'
          and isinstance(body[1].body[1], ast.Expr) and isinstance(body[1].body[1].value, ast.Call)
          and src(body[1].body[1].value.func) == 'print'
          and [k.arg + '=' + src(k.value) for k in body[1].body[1].value.keywords] == ['file=sys.stderr'])
    if not ok:
        raise Unknown(f'{REPORT_FN}: body is not `key = (str(rules_path), str(error)); if key not in {REPORT_SET}: add; print(..., file=sys.stderr)`')
    for n in ast.walk(fn):
        if isinstance(n, (ast.Return, ast.Global, ast.Nonlocal, ast.Raise, ast.Yield)):
            raise Unknown(f'{REPORT_FN}: contains {type(n).__name__}')
    # the set: one module-level definition `= set()`, the two uses above, and `.clear()` in clear_engine_cache
    shapes = []
    for n in sorted(uses, key=lambda x: (x.lineno, x.col_offset)):
        p = par.get(n)
        f = enclosing_function(n, par)
        if f is None and isinstance(p, (ast.Assign, ast.AnnAssign)) and src(p.value) == 'set()':
            shapes.append('<module>:set()')
        elif f is fn:
            shapes.append(f'{REPORT_FN}:use')
        elif f is not None and f.name == 'clear_engine_cache' and isinstance(p, ast.Attribute) and p.attr == 'clear' \
                and isinstance(par.get(p), ast.Call) and isinstance(par.get(par[p]), ast.Expr):
            shapes.append('clear_engine_cache:clear()')
        else:
            raise Unknown(f'{REPORT_SET}: unrecognised use at line {n.lineno}')
    if sorted(shapes) != sorted(['<module>:set()', f'{REPORT_FN}:use', f'{REPORT_FN}:use', 'clear_engine_cache:clear()']):
        raise Unknown(f'{REPORT_SET}: uses {shapes}')
    sites = []
    for c in sorted(calls, key=lambda x: x.lineno):
        st = par.get(c)
        h = par.get(st)
        f = enclosing_function(c, par)
        if not (isinstance(st, ast.Expr) and isinstance(h, ast.ExceptHandler) and f is not None):
            raise Unknown(f'{REPORT_FN}: called outside an except handler / its value is used (line {c.lineno})')
        sites.append(f.name)
    return {'present': True, 'facts': ['set:' + REPORT_SET, 'test-add-print(file=sys.stderr)', 'returns-nothing',
                                       'cleared-by:clear_engine_cache'] + ['called-in-except:' + x for x in sites]}


def cached_engine_facts(tree, par):
    var = '_cached_engine'
    writes, reads = [], []
    globals_in = set()
    for n in ast.walk(tree):
        if isinstance(n, ast.Global) and var in n.names:
            globals_in.add(enclosing_function(n, par).name)
    for n in ast.walk(tree):
        if isinstance(n, ast.Attribute) and n.attr == var:
            raise Unknown(f'{var} reached through an attribute (line {n.lineno})')
        if not (isinstance(n, ast.Name) and n.id == var):
            continue
        fn = enclosing_function(n, par)
        p = par.get(n)
        if isinstance(n.ctx, ast.Store):
            if not (isinstance(p, (ast.Assign, ast.AnnAssign))):
                raise Unknown(f'{var}: unrecognised write at line {n.lineno}')
            val = p.value
            if fn is None:
                if not (isinstance(val, ast.Constant) and val.value is None):
                    raise Unknown(f'{var}: module-level value is not None')
                writes.append((n.lineno, '<module>:None'))
                continue
            if fn.name not in globals_in:
                raise Unknown(f'{var}: assigned in {fn.name} without `global` (a local, not the cache)')
            if isinstance(val, ast.Constant) and val.value is None:
                where = 'entry' if par.get(p) is fn else 'nested'
                if fn.name == 'get_all_rules':
                    # must be the first statement after the docstring and the global declaration
                    body = [s for s in fn.body if not (isinstance(s, ast.Expr) and isinstance(s.value, ast.Constant))
                            and not isinstance(s, ast.Global)]
                    lead = []
                    for s in body:
                        if isinstance(s, ast.Assign) and all(isinstance(t, ast.Name) and t.id.startswith('_cached_engine')
                                                             for t in s.targets) \
                                and isinstance(s.value, ast.Constant) and s.value.value is None:
                            lead.append(s)
                        else:
                            break
                    if p not in lead:
                        raise Unknown(f'{var}: reset in get_all_rules is not unconditional at entry (line {n.lineno})')
                writes.append((n.lineno, f'{fn.name}:None@{where}'))
            elif isinstance(val, ast.Name) and val.id == 'engine' and fn.name == 'get_all_rules':
                # enclosing chain must be  try  <-  if rules_path.endswith('.rules')  <-  if rules_path  <- function
                chain = []
                q = p
                while par.get(q) is not fn:
                    q = par[q]
                    chain.append(q)
                kinds = [type(c).__name__ for c in chain]
                if kinds != ['Try', 'If', 'If']:
                    raise Unknown(f'{var} = engine: unexpected nesting {kinds}')
                tr, if_rules, if_path = chain
                if p not in tr.body or src(if_rules.test) != "rules_path.endswith('.rules')" or src(if_path.test) != 'rules_path' \
                        or tr not in if_rules.body or if_rules not in if_path.body:
                    raise Unknown(f'{var} = engine: guard is not `if rules_path: if rules_path.endswith(\'.rules\'): try:`')
                # engine must be the value returned by load_merchants_file in the same try body, nothing in between
                idx = tr.body.index(p)
                binds = [s for s in tr.body[:idx] if isinstance(s, ast.Assign) and any(isinstance(t, ast.Name) and t.id == 'engine' for t in s.targets)]
                if len(binds) != 1 or not (isinstance(binds[0].value, ast.Call) and src(binds[0].value.func) == 'load_merchants_file'):
                    raise Unknown(f'{var} = engine: engine is not load_merchants_file(...)')
                # the handler must swallow and fall through to the CSV reader
                if len(tr.handlers) != 1 or not handler_falls_through(tr.handlers[0]):
                    raise Unknown('get_all_rules: the except clause of the .rules branch does more than `pass` / '
                                  '`_report_rules_load_error(rules_path, e)`')
                writes.append((n.lineno, 'get_all_rules:engine@try@if-endswith-rules'))
            else:
                raise Unknown(f'{var}: unrecognised write in {fn.name}: {src(p)}')
        else:
            if fn is None:
                raise Unknown(f'{var}: read at module level')
            if fn.name == 'get_cached_engine' and isinstance(p, ast.Return):
                reads.append((n.lineno, 'get_cached_engine:return'))
            elif fn.name == 'normalize_merchant':
                reads.append((n.lineno, 'normalize_merchant'))
            else:
                raise Unknown(f'{var}: unrecognised read in {fn.name} (line {n.lineno})')
    # normalize_merchant: `if _cached_engine is not None:` at function level, first statement calls .match,
    # and it comes before the first loop over the `rules` argument
    nm = [n for n in tree.body if isinstance(n, ast.FunctionDef) and n.name == 'normalize_merchant']
    if len(nm) != 1:
        raise Unknown('normalize_merchant not found')
    nm = nm[0]
    ifs = [s for s in nm.body if isinstance(s, ast.If) and src(s.test) == f'{var} is not None']
    if len(ifs) != 1:
        raise Unknown('normalize_merchant: `if _cached_engine is not None:` not found at function level')
    first = ifs[0].body[0]
    if not (isinstance(first, ast.Assign) and isinstance(first.value, ast.Call)
            and src(first.value.func) == f'{var}.match' and src(first.value.args[0]) == 'transaction'):
        raise Unknown('normalize_merchant: engine branch does not start with _cached_engine.match(transaction, …)')
    if ifs[0].orelse:
        raise Unknown('normalize_merchant: engine branch has an else')
    if not all(isinstance(s, ast.Return) for s in [ifs[0].body[-1]]):
        raise Unknown('normalize_merchant: engine branch does not end in return')
    loops = [s for s in nm.body if isinstance(s, ast.For) and src(s.iter) == 'rules']
    if len(loops) != 1 or nm.body.index(loops[0]) < nm.body.index(ifs[0]):
        raise Unknown('normalize_merchant: loop over `rules` not found after the engine branch')
    uses_in_if = sum(1 for n in ast.walk(ifs[0]) if isinstance(n, ast.Name) and n.id == var)
    n_nm = sum(1 for _, r in reads if r == 'normalize_merchant')
    if uses_in_if != n_nm or n_nm != 2:
        raise Unknown(f'normalize_merchant: {n_nm} reads of {var}, {uses_in_if} of them in the engine branch (expected 2/2)')
    reads = sorted(set(r if r != 'normalize_merchant' else 'normalize_merchant:is-not-None-then-match' for _, r in reads))
    writes.sort()
    wl = [w for _, w in writes]
    resets = 'get_all_rules:None@entry' in wl
    return {'writes': wl, 'reads': reads, 'resets': resets}


STATE_MODULES = ['expr_parser.py', 'merchant_engine.py', 'merchant_utils.py', 'modifier_parser.py']
MUTATORS = {'add', 'update', 'append', 'extend', 'insert', 'pop', 'remove', 'clear', 'setdefault', 'discard', 'popitem',
            'sort', 'reverse', 'appendleft', 'difference_update', 'intersection_update', 'symmetric_difference_update'}


def is_constant_name(name):
    letters = [c for c in name if c.isalpha()]
    return bool(letters) and all(c.isupper() for c in letters)


def is_container_expr(v):
    if isinstance(v, (ast.Dict, ast.List, ast.Set, ast.ListComp, ast.DictComp, ast.SetComp)):
        return True
    if isinstance(v, ast.Call):
        f = src(v.func).split('.')[-1]
        return f in ('dict', 'list', 'set', 'defaultdict', 'OrderedDict', 'Counter', 'deque', 'WeakKeyDictionary',
                     'WeakValueDictionary', 'ChainMap', 'bytearray')
    return False


def process_state_facts(srcdir):
    """Everything in the classification modules that can carry state from one call to the next within a process:
    every module-level variable that is not an ALL-CAPS constant, every global/nonlocal declaration, every class-level
    container, every mutable default argument, every caching decorator.  ALL-CAPS names must never be mutated.
    The result is compared with the list the model knows (Model.expected_process_state): a new module-level dict
    is a broken obligation."""
    out = []
    for fn in STATE_MODULES:
        path = os.path.join(srcdir, fn)
        if not os.path.exists(path):
            continue
        mod = fn[:-3]
        tree = ast.parse(open(path, encoding='utf-8').read(), filename=path)
        par = parents(tree)
        consts = set()
        for st in tree.body:
            targets = []
            if isinstance(st, ast.Assign):
                targets = st.targets
            elif isinstance(st, (ast.AnnAssign, ast.AugAssign)):
                targets = [st.target]
            elif isinstance(st, (ast.For, ast.With, ast.While, ast.Try, ast.Delete)):
                raise Unknown(f'{fn}: module-level {type(st).__name__} statement (line {st.lineno})')
            elif isinstance(st, ast.If) and src(st.test) != 'TYPE_CHECKING':
                raise Unknown(f'{fn}: module-level if (line {st.lineno})')
            for t in targets:
                for n in ([t] if not isinstance(t, ast.Tuple) else t.elts):
                    if not isinstance(n, ast.Name):
                        raise Unknown(f'{fn}: module-level assignment to {src(n)} (line {st.lineno})')
                    if is_constant_name(n.id):
                        consts.add(n.id)
                    elif n.id.startswith('__') and n.id.endswith('__'):
                        continue
                    else:
                        out.append(f'{mod}:{n.id}')
        for n in ast.walk(tree):
            if isinstance(n, (ast.Global, ast.Nonlocal)):
                f = enclosing_function(n, par)
                out.append(f'{mod}:{type(n).__name__.lower()}@{f.name if f else "?"}:{",".join(n.names)}')
            if isinstance(n, (ast.FunctionDef, ast.AsyncFunctionDef, ast.ClassDef)):
                for d in n.decorator_list:
                    if 'cache' in src(d).lower() or 'memo' in src(d).lower():
                        out.append(f'{mod}:{n.name}@{src(d)}')
            if isinstance(n, (ast.FunctionDef, ast.AsyncFunctionDef, ast.Lambda)):
                for d in list(n.args.defaults) + [k for k in n.args.kw_defaults if k is not None]:
                    if is_container_expr(d):
                        out.append(f'{mod}:{getattr(n, "name", "lambda")}:mutable-default')
            if isinstance(n, ast.ClassDef):
                for st in n.body:
                    if isinstance(st, (ast.Assign, ast.AnnAssign)) and st.value is not None and is_container_expr(st.value):
                        for t in (st.targets if isinstance(st, ast.Assign) else [st.target]):
                            if isinstance(t, ast.Name) and t.id != '__slots__':
                                if is_constant_name(t.id):
                                    consts.add(t.id)
                                else:
                                    out.append(f'{mod}:{n.name}.{t.id}')
            if isinstance(n, ast.Call) and src(n.func) in ('globals', 'setattr', 'vars', 'locals', 'exec', 'eval') \
                    and fn != 'expr_parser.py':
                raise Unknown(f'{fn}: call of {src(n.func)}() (line {n.lineno})')
            if isinstance(n, ast.Attribute) and src(n) == 'sys.modules':
                raise Unknown(f'{fn}: sys.modules (line {n.lineno})')
            # function / class attributes used as storage:  f.cache = …  (anything but self.x / cls-free locals)
            if isinstance(n, ast.Attribute) and isinstance(n.ctx, ast.Store) and isinstance(n.value, ast.Name):
                f = enclosing_function(n, par)
                defined = {x.name for x in ast.walk(tree) if isinstance(x, (ast.FunctionDef, ast.ClassDef))}
                if n.value.id in defined:
                    out.append(f'{mod}:{n.value.id}.{n.attr}@{f.name if f else "<module>"}')
        # constants are never mutated
        for n in ast.walk(tree):
            if isinstance(n, ast.Name) and n.id in consts:
                p = par.get(n)
                if isinstance(p, ast.Subscript) and p.value is n and isinstance(p.ctx, (ast.Store, ast.Del)):
                    raise Unknown(f'{fn}: constant {n.id} is written (line {n.lineno})')
                if isinstance(p, ast.Attribute) and p.value is n and p.attr in MUTATORS and isinstance(par.get(p), ast.Call):
                    raise Unknown(f'{fn}: constant {n.id} is mutated with .{p.attr}() (line {n.lineno})')
                if isinstance(p, ast.AugAssign) and p.target is n:
                    raise Unknown(f'{fn}: constant {n.id} is augmented (line {n.lineno})')
            if isinstance(n, ast.Attribute) and n.attr in consts and isinstance(par.get(n), ast.Attribute) \
                    and par[n].attr in MUTATORS and isinstance(par.get(par[n]), ast.Call):
                raise Unknown(f'{fn}: constant {n.attr} is mutated (line {n.lineno})')
    return sorted(set(out))


def _self_writes(cls):
    """(method, attr, kind) for every write to instance state in a class: self.X = / del, self.X[..] = / del,
    self.X.<mutator>(..), self.X op= .."""
    out = []
    for m in cls.body:
        if not isinstance(m, (ast.FunctionDef, ast.AsyncFunctionDef)):
            continue
        par = parents(m)
        for n in ast.walk(m):
            if not (isinstance(n, ast.Attribute) and isinstance(n.value, ast.Name) and n.value.id == 'self'):
                continue
            p = par.get(n)
            if isinstance(n.ctx, (ast.Store, ast.Del)):
                out.append((m.name, n.attr, 'assign'))
            elif isinstance(p, ast.Subscript) and p.value is n and isinstance(p.ctx, (ast.Store, ast.Del)):
                out.append((m.name, n.attr, 'item'))
            elif isinstance(p, ast.Attribute) and p.value is n and p.attr in MUTATORS and isinstance(par.get(p), ast.Call) \
                    and par[p].func is p:
                out.append((m.name, n.attr, 'call'))
            elif isinstance(p, ast.Attribute) and p.value is n and isinstance(p.ctx, (ast.Store, ast.Del)):
                out.append((m.name, n.attr + '.' + p.attr, 'assign'))
    return out


def _param_mutations(cls):
    """method:param for every parameter (other than self) that a method writes through"""
    out = set()
    for m in cls.body:
        if not isinstance(m, (ast.FunctionDef, ast.AsyncFunctionDef)):
            continue
        params = {a.arg for a in m.args.args + m.args.kwonlyargs + m.args.posonlyargs} - {'self', 'cls'}
        rebound = {n.id for n in ast.walk(m) if isinstance(n, ast.Name) and isinstance(n.ctx, ast.Store)}
        par = parents(m)
        for n in ast.walk(m):
            if not (isinstance(n, ast.Name) and n.id in params and n.id not in rebound):
                continue
            p = par.get(n)
            if isinstance(p, ast.Subscript) and p.value is n and isinstance(p.ctx, (ast.Store, ast.Del)):
                out.add(f'{m.name}:{n.id}')
            elif isinstance(p, ast.Attribute) and p.value is n and (
                    isinstance(p.ctx, (ast.Store, ast.Del)) or
                    (p.attr in MUTATORS and isinstance(par.get(p), ast.Call) and par[p].func is p)):
                out.add(f'{m.name}:{n.id}')
            elif isinstance(p, ast.Attribute) and p.value is n:       # param.attr[...] = / param.attr.add(...)
                q = par.get(p)
                if (isinstance(q, ast.Subscript) and q.value is p and isinstance(q.ctx, (ast.Store, ast.Del))) or \
                        (isinstance(q, ast.Attribute) and q.attr in MUTATORS and isinstance(par.get(q), ast.Call) and par[q].func is q):
                    out.add(f'{m.name}:{n.id}.{p.attr}')
    return sorted(out)


def write_discipline_facts(srcdir):
    """Who may write what, for the objects a classification goes through:
      MerchantEngine          instance state is written only while constructing / parsing; match and its helpers write
                              nothing on the engine and nothing through their parameters (rule, transaction, rows, variables)
      TransactionEvaluator    created per evaluation with a new, empty _scope; the only other writes are to that _scope
      TransactionContext      written only by its constructor
      construction sites      every TransactionEvaluator(...) is built inside the function that uses it (per call)"""
    me = ast.parse(open(os.path.join(srcdir, 'merchant_engine.py'), encoding='utf-8').read())
    ep = ast.parse(open(os.path.join(srcdir, 'expr_parser.py'), encoding='utf-8').read())

    def cls_of(tree, name):
        c = [n for n in tree.body if isinstance(n, ast.ClassDef) and n.name == name]
        if len(c) != 1:
            raise Unknown(f'class {name} not found')
        return c[0]
    eng = cls_of(me, 'MerchantEngine')
    ew = _self_writes(eng)
    writers = sorted({m for m, _, _ in ew})
    callers = sorted({enclosing_function(n, parents(me)).name for n in ast.walk(eng)
                      if isinstance(n, ast.Attribute) and n.attr == '_add_rule' and isinstance(n.value, ast.Name) and n.value.id == 'self'})
    eng_params = _param_mutations(eng)
    ev = cls_of(ep, 'TransactionEvaluator')
    vw = _self_writes(ev)
    init = [m for m in ev.body if isinstance(m, ast.FunctionDef) and m.name == '__init__']
    scope_init = ''
    if init:
        for st in init[0].body:
            t = st.target if isinstance(st, ast.AnnAssign) else (st.targets[0] if isinstance(st, ast.Assign) and len(st.targets) == 1 else None)
            if t is not None and src(t) == 'self._scope' and st.value is not None:
                scope_init = src(st.value)
    ev_attrs = sorted({a for _, a, _ in vw})
    scope_writers = sorted({m for m, a, _ in vw if a == '_scope' and m != '__init__'})
    ctx = cls_of(ep, 'TransactionContext')
    ctx_writers = sorted({m for m, _, _ in _self_writes(ctx)})
    sites = []
    for fn in sorted(os.listdir(srcdir)):
        if not fn.endswith('.py'):
            continue
        tree = ast.parse(open(os.path.join(srcdir, fn), encoding='utf-8').read())
        par = parents(tree)
        for n in ast.walk(tree):
            if isinstance(n, ast.Call) and src(n.func).split('.')[-1] == 'TransactionEvaluator':
                f = enclosing_function(n, par)
                st = par.get(n)
                local = isinstance(st, ast.Assign) and len(st.targets) == 1 and isinstance(st.targets[0], ast.Name)
                inline = isinstance(st, ast.Attribute)      # TransactionEvaluator(ctx).evaluate(...)
                if f is None or not (local or inline):
                    raise Unknown(f'{fn}: TransactionEvaluator built outside a function / kept in {src(st)[:60]} (line {n.lineno})')
                if local:
                    # the local must not escape: never stored on an object, never returned, never global
                    name = st.targets[0].id
                    for x in ast.walk(f):
                        if isinstance(x, (ast.Global, ast.Nonlocal)) and name in x.names:
                            raise Unknown(f'{fn}:{f.name}: evaluator variable {name} is global')
                        if isinstance(x, ast.Return) and x.value is not None and src(x.value) == name:
                            raise Unknown(f'{fn}:{f.name}: evaluator is returned')
                        if isinstance(x, (ast.Assign, ast.AnnAssign)) and x.value is not None and src(x.value) == name:
                            raise Unknown(f'{fn}:{f.name}: evaluator is stored elsewhere')
                sites.append(f'{fn[:-3]}:{f.name}')
    good_engine = writers == ['__init__', '_add_rule', 'parse'] and callers == ['parse'] and not eng_params
    good_scope = scope_init == '{}' and ev_attrs == ['_scope', 'ctx'] and ctx_writers == ['__init__']
    return {'engine_state_writers': writers, 'add_rule_callers': callers, 'engine_param_mutations': eng_params,
            'evaluator_attrs': ev_attrs, 'scope_init': scope_init, 'scope_writers': scope_writers,
            'context_writers': ctx_writers, 'evaluator_sites': sorted(set(sites)),
            'engine_match_write_free': good_engine, 'scope_per_evaluation': good_scope}


def extract(srcdir):
    def load(name):
        p = os.path.join(srcdir, name)
        t = ast.parse(open(p, encoding='utf-8').read(), filename=p)
        return t, parents(t)
    ep, ep_par = load('expr_parser.py')
    no_global(ep, ['_expression_cache', '_regex_cache'])
    facts = {'expr': expr_cache_facts(ep, ep_par), 'regex': regex_cache_facts(ep, ep_par)}
    # the caches must not be reached from any other module of the package
    for fn in sorted(os.listdir(srcdir)):
        if fn.endswith('.py') and fn != 'expr_parser.py':
            txt = open(os.path.join(srcdir, fn), encoding='utf-8').read()
            for c in ('_expression_cache', '_regex_cache'):
                if c in txt:
                    raise Unknown(f'{c} mentioned in {fn}')
    for sub in ('commands',):
        d = os.path.join(srcdir, sub)
        if os.path.isdir(d):
            for fn in sorted(os.listdir(d)):
                if fn.endswith('.py'):
                    txt = open(os.path.join(d, fn), encoding='utf-8').read()
                    for c in ('_expression_cache', '_regex_cache', '_cached_engine'):
                        if c in txt:
                            raise Unknown(f'{c} mentioned in {sub}/{fn}')
    me, _ = load('merchant_engine.py')
    facts['engine'] = engine_facts(me)
    mu, mu_par = load('merchant_utils.py')
    facts['cached'] = cached_engine_facts(mu, mu_par)
    facts['report'] = load_error_report_facts(mu, mu_par)
    facts['state'] = process_state_facts(srcdir)
    facts['writes'] = write_discipline_facts(srcdir)
    for fn in sorted(os.listdir(srcdir)):
        if fn.endswith('.py') and fn != 'merchant_utils.py':
            txt = open(os.path.join(srcdir, fn), encoding='utf-8').read()
            if REPORT_SET in txt:
                raise Unknown(f'{REPORT_SET} mentioned in {fn}')
    for fn in sorted(os.listdir(srcdir)):
        if fn.endswith('.py') and fn != 'merchant_utils.py':
            if '_cached_engine' in open(os.path.join(srcdir, fn), encoding='utf-8').read():
                raise Unknown(f'_cached_engine mentioned in {fn}')
    return facts


def cs(s):
    return '"' + s.replace('"', '""') + '"'


def cl(xs):
    return '[' + '; '.join(cs(x) for x in xs) + ']'


def render(f):
    e, r, g, c = f['expr'], f['regex'], f['engine'], f['cached']
    return f'''(* GENERATED by tools/c07_cache_keys.py from src/tally/expr_parser.py, merchant_engine.py,
   merchant_utils.py — do not edit; rewritten on every ./check C07 run. *)
From Coq Require Import String List Bool.
From Tally Require Import C07.Model.
Import ListNotations.
Open Scope string_scope.

Definition facts : cache_facts := {{|
  expr_cache_name := {cs(e['name'])}; expr_cache_fn := {cs(e['fn'])}; expr_key := {cs(e['key'])};
  expr_key_is_parameter := {'true' if e['is_param'] else 'false'};
  expr_compute := {cs(e['compute'])};
  expr_cache_uses := {cl(e['uses'])};
  regex_cache_name := {cs(r['name'])}; regex_cache_fn := {cs(r['fn'])}; regex_key := {cs(r['key'])};
  regex_key_sources := {cl(r['sources'])};
  regex_compute := {cs(r['compute'])}; regex_flags := {cl(r['flags'])};
  regex_cache_uses := {cl(r['uses'])};
  engine_parse_resets := {cl(g['resets'])};
  engine_init_attrs := {cl(g['init'])};
  cached_engine_reads := {cl(c['reads'])} |}}.

(* every assignment to merchant_utils._cached_engine, in source order *)
Definition cached_engine_writes : list string := {cl(c['writes'])}.

(* the show-once report of .rules load errors (process-level state with history; influences stderr only) *)
Definition reports_load_errors : bool := {'true' if f['report']['present'] else 'false'}.
Definition load_error_report : list string := {cl(f['report']['facts'])}.

(* every place in expr_parser / merchant_engine / merchant_utils / modifier_parser that can carry state across calls
   within a process (module-level variables, global declarations, class-level containers, mutable defaults, caching
   decorators, function attributes) *)
Definition process_level_state : list string := {cl(f['state'])}.

(* write discipline of the objects a classification goes through (C07/Args.v is the model of it) *)
Definition engine_state_writers : list string := {cl(f['writes']['engine_state_writers'])}.
Definition add_rule_callers : list string := {cl(f['writes']['add_rule_callers'])}.
Definition engine_param_mutations : list string := {cl(f['writes']['engine_param_mutations'])}.
Definition evaluator_attrs : list string := {cl(f['writes']['evaluator_attrs'])}.
Definition scope_init : string := {cs(f['writes']['scope_init'])}.
Definition scope_writers : list string := {cl(f['writes']['scope_writers'])}.
Definition context_writers : list string := {cl(f['writes']['context_writers'])}.
Definition evaluator_sites : list string := {cl(f['writes']['evaluator_sites'])}.
(* the two design facts the argument-independence theorem needs *)
Definition engine_match_write_free : bool := {'true' if f['writes']['engine_match_write_free'] else 'false'}.
Definition scope_per_evaluation : bool := {'true' if f['writes']['scope_per_evaluation'] else 'false'}.

(* does get_all_rules start by resetting _cached_engine (proposed_fixes/C07-reset-cached-engine.diff)? *)
Definition get_all_rules_resets_cached_engine : bool := {'true' if c['resets'] else 'false'}.
'''


def generate(srcdir):
    """Returns (coq text or None, facts or None, error or None)."""
    try:
        f = extract(srcdir)
        return render(f), f, None
    except Unknown as e:
        return None, None, str(e)
    except (SyntaxError, OSError, KeyError, IndexError, AttributeError, TypeError) as e:
        return None, None, f'{type(e).__name__}: {e}'


if __name__ == '__main__':
    text, facts, err = generate(sys.argv[1] if len(sys.argv) > 1 else '/repo/src/tally')
    if err:
        print('TRANSLATION FAILURE:', err)
        sys.exit(1)
    print(text)
