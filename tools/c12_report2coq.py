"""C12 translator (fail closed): reads report.py / analyzer.py with `ast` and emits

  Gen/C12MerchantId.v  make_merchant_id, section_id  (chains of str.replace / str.lower on one name)
  Gen/C12Embed.v       the placeholder replacement sequence of the embedded-HTML branch in source
                       order, the data-script prefix/suffix around json.dumps(spending_data) (which
                       must be called with default settings), and for every output function the
                       stats keys it binds its cash-flow figures to.

Anything outside the tiny grammar raises Untranslatable (=> broken tie)."""
import ast
import os


class Untranslatable(Exception):
    pass


def lit(s):
    """Coq term of type text for a Python str constant."""
    if all(32 <= ord(c) < 127 for c in s):
        return '(cps "' + s.replace('"', '""') + '")'
    return '([' + '; '.join(str(ord(c)) for c in s) + ']%N : text)'


def coq_string(s):
    if not all(32 <= ord(c) < 127 for c in s):
        raise Untranslatable(f'non-ASCII key {s!r}')
    return '"' + s.replace('"', '""') + '"'


def find_func(body, name, where):
    fs = [n for n in body if isinstance(n, (ast.FunctionDef,)) and n.name == name]
    if len(fs) != 1:
        raise Untranslatable(f'{where}: expected exactly one def {name}, found {len(fs)}')
    return fs[0]


def str_chain(e, var, where):
    """e ::= var | e.replace(const, const) | e.lower()   ->  Coq term over the Coq variable `var`."""
    if isinstance(e, ast.Name) and e.id == var:
        return var
    if isinstance(e, ast.Call) and isinstance(e.func, ast.Attribute) and not e.keywords:
        inner = str_chain(e.func.value, var, where)
        if e.func.attr == 'replace' and len(e.args) == 2 and all(
                isinstance(a, ast.Constant) and isinstance(a.value, str) for a in e.args):
            old, new = e.args[0].value, e.args[1].value
            if old == '':
                raise Untranslatable(f'{where}: replace with empty pattern')
            return f'(repl {lit(old)} {lit(new)} {inner})'
        if e.func.attr == 'lower' and not e.args:
            return f'(lower_text {inner})'
    raise Untranslatable(f'{where}: unsupported expression {ast.dump(e)[:200]}')


def walk_no_nested(fn):
    """All nodes of fn's body, descending into control flow but not into nested defs/lambdas."""
    stack = list(fn.body)
    while stack:
        n = stack.pop()
        yield n
        for c in ast.iter_child_nodes(n):
            if not isinstance(c, (ast.FunctionDef, ast.Lambda, ast.ClassDef)):
                stack.append(c)


def stats_key(e):
    """'k' if e is stats['k'] or stats.get('k'[, default]); else None."""
    if isinstance(e, ast.Subscript) and isinstance(e.value, ast.Name) and e.value.id == 'stats' and \
            isinstance(e.slice, ast.Constant) and isinstance(e.slice.value, str):
        return e.slice.value
    if isinstance(e, ast.Call) and isinstance(e.func, ast.Attribute) and e.func.attr == 'get' and \
            isinstance(e.func.value, ast.Name) and e.func.value.id == 'stats' and e.args and \
            isinstance(e.args[0], ast.Constant) and isinstance(e.args[0].value, str):
        return e.args[0].value
    return None


def binds_of(fn):
    """(local name | dict key, stats key) for `x = stats.get('k', …)` and `'x': stats.get('k', …)` in fn."""
    out = []
    for n in ast.walk(fn):
        if isinstance(n, ast.Assign) and len(n.targets) == 1 and isinstance(n.targets[0], ast.Name):
            k = stats_key(n.value)
            if k is not None:
                out.append((n.targets[0].id, k))
        if isinstance(n, ast.Dict):
            for kk, vv in zip(n.keys, n.values):
                if isinstance(kk, ast.Constant) and isinstance(kk.value, str):
                    k = stats_key(vv)
                    if k is not None:
                        out.append((kk.value, k))
    return sorted(set(out))


def translate(src_dir):
    """Returns {relpath: text} for the Gen files."""
    rp = os.path.join(src_dir, 'report.py')
    mod = ast.parse(open(rp, encoding='utf-8').read(), rp)
    w = find_func(mod.body, 'write_summary_file_vue', 'report.py')
    # ---- make_merchant_id ---------------------------------------------------------------
    mm = [n for n in ast.walk(w) if isinstance(n, ast.FunctionDef) and n.name == 'make_merchant_id']
    if len(mm) != 1:
        raise Untranslatable('report.py: expected one nested def make_merchant_id')
    mm = mm[0]
    if len(mm.args.args) != 1 or mm.args.vararg or mm.args.kwarg or mm.args.kwonlyargs or mm.args.defaults:
        raise Untranslatable('make_merchant_id: signature changed')
    body = [s for s in mm.body if not (isinstance(s, ast.Expr) and isinstance(s.value, ast.Constant))]
    if len(body) != 1 or not isinstance(body[0], ast.Return):
        raise Untranslatable('make_merchant_id: body is not a single return')
    arg = mm.args.args[0].arg
    mm_term = str_chain(body[0].value, arg, 'make_merchant_id')
    # every call site must use it directly on the merchant name
    # ---- section_id ---------------------------------------------------------------------
    sid = [n for n in ast.walk(w) if isinstance(n, ast.Assign) and len(n.targets) == 1 and
           isinstance(n.targets[0], ast.Name) and n.targets[0].id == 'section_id']
    if len(sid) != 1:
        raise Untranslatable('report.py: expected one assignment to section_id')
    sid_term = str_chain(sid[0].value, 'section_name', 'section_id')
    mid = f'''(* GENERATED by tools/c12_report2coq.py from src/tally/report.py — do not edit.
   make_merchant_id: report.py line {mm.lineno}; section_id: line {sid[0].lineno}. *)
From Coq Require Import String List NArith.
From Tally Require Import C12.TextLib.
Import ListNotations.
Open Scope N_scope.
Module C12MerchantId.
Definition make_merchant_id ({arg} : text) : text :=
  {mm_term}.
Definition section_id (section_name : text) : text :=
  {sid_term}.
End C12MerchantId.
'''
    # ---- data script --------------------------------------------------------------------
    # data_json = json.dumps(<name>)[.replace(c, c)]*        (json.dumps with default settings)
    # data_script = f"<prefix>{data_json}<suffix>"            (or the json.dumps(...) chain inline)
    def dumps_chain(e):
        steps = []
        while isinstance(e, ast.Call) and isinstance(e.func, ast.Attribute) and e.func.attr == 'replace':
            if not (len(e.args) == 2 and not e.keywords and all(isinstance(a, ast.Constant) and isinstance(a.value, str) for a in e.args)
                    and e.args[0].value):
                raise Untranslatable('report.py: data escape is not .replace(<const>, <const>)')
            steps.append((e.args[0].value, e.args[1].value))
            e = e.func.value
        if not (isinstance(e, ast.Call) and isinstance(e.func, ast.Attribute) and e.func.attr == 'dumps'
                and isinstance(e.func.value, ast.Name) and e.func.value.id == 'json'
                and len(e.args) == 1 and isinstance(e.args[0], ast.Name) and not e.keywords):
            raise Untranslatable('report.py: data is not json.dumps(<name>) with default settings (+ constant replaces)')
        steps.reverse()
        return steps
    ds = [n for n in walk_no_nested(w) if isinstance(n, ast.Assign) and len(n.targets) == 1 and
          isinstance(n.targets[0], ast.Name) and n.targets[0].id == 'data_script']
    if len(ds) != 1 or not isinstance(ds[0].value, ast.JoinedStr):
        raise Untranslatable('report.py: data_script is not a single f-string assignment')
    parts = ds[0].value.values
    if not (len(parts) == 3 and isinstance(parts[0], ast.Constant) and isinstance(parts[2], ast.Constant)
            and isinstance(parts[1], ast.FormattedValue) and parts[1].conversion == -1 and parts[1].format_spec is None):
        raise Untranslatable('report.py: data_script f-string shape changed')
    inner = parts[1].value
    if isinstance(inner, ast.Name):
        dj = [n for n in walk_no_nested(w) if isinstance(n, ast.Assign) and len(n.targets) == 1 and
              isinstance(n.targets[0], ast.Name) and n.targets[0].id == inner.id]
        if len(dj) != 1 or dj[0].lineno > ds[0].lineno:
            raise Untranslatable(f'report.py: expected one assignment to {inner.id} before data_script')
        inner = dj[0].value
    escape_steps = dumps_chain(inner)
    prefix, suffix = parts[0].value, parts[2].value
    # ---- embedded branch: html_template.replace(P1, a).replace(P2, b).replace(P3, c) -------
    ifs = [n for n in walk_no_nested(w) if isinstance(n, ast.If) and isinstance(n.test, ast.UnaryOp) and
           isinstance(n.test.op, ast.Not) and isinstance(n.test.operand, ast.Name) and n.test.operand.id == 'embedded_html']
    if len(ifs) != 1:
        raise Untranslatable('report.py: expected one `if not embedded_html:`')
    els = ifs[0].orelse
    if len(els) != 1 or not (isinstance(els[0], ast.Assign) and len(els[0].targets) == 1 and
                              isinstance(els[0].targets[0], ast.Name) and els[0].targets[0].id == 'final_html'):
        raise Untranslatable('report.py: embedded branch is not a single assignment to final_html')
    slots = {'css_content': 'SCss', 'data_script': 'SData', 'js_content': 'SJs'}
    steps = []
    e = els[0].value
    while True:
        if isinstance(e, ast.Name) and e.id == 'html_template':
            break
        if not (isinstance(e, ast.Call) and isinstance(e.func, ast.Attribute) and e.func.attr == 'replace'
                and len(e.args) == 2 and not e.keywords and isinstance(e.args[0], ast.Constant)
                and isinstance(e.args[0].value, str) and e.args[0].value
                and isinstance(e.args[1], ast.Name) and e.args[1].id in slots):
            raise Untranslatable('report.py: embedded branch is not a chain of .replace(<const>, <content>)')
        steps.append((e.args[0].value, slots[e.args[1].id]))
        e = e.func.value
    steps.reverse()  # application order
    # the assembled text must be written as is: no assignment to final_html outside the two branches
    inside = {id(n) for n in ast.walk(ifs[0])}
    for n in walk_no_nested(w):
        tg = n.targets if isinstance(n, ast.Assign) else [n.target] if isinstance(n, (ast.AugAssign, ast.AnnAssign)) else []
        if any(isinstance(t, ast.Name) and t.id == 'final_html' for t in tg) and id(n) not in inside:
            raise Untranslatable(f'report.py line {n.lineno}: final_html is modified after it was assembled '
                                 '(a later replacement rescans the inserted data)')
    # the final text written must be final_html as is
    # ---- figure bindings ----------------------------------------------------------------
    ap = os.path.join(src_dir, 'analyzer.py')
    amod = ast.parse(open(ap, encoding='utf-8').read(), ap)
    binds = {'html': binds_of(w)}
    for fn, key in (('export_markdown', 'markdown'), ('print_summary', 'text'), ('print_sections_summary', 'sections'),
                    ('export_json', 'json')):
        binds[key] = binds_of(find_func(amod.body, fn, 'analyzer.py'))

    def blist(l):
        return '[' + '; '.join(f'({coq_string(a)}, {coq_string(b)})' for a, b in l) + ']'
    emb = f'''(* GENERATED by tools/c12_report2coq.py from src/tally/report.py and analyzer.py — do not edit.
   data_script: report.py line {ds[0].lineno}; embedded branch: line {els[0].lineno}. *)
From Coq Require Import String List NArith.
From Tally Require Import C12.TextLib.
Import ListNotations.
Module C12Embed.
Inductive slot := SCss | SData | SJs.
(* final_html = html_template.replace(p1, c1).replace(p2, c2)…  in application order *)
Definition embed_steps : list (text * slot) :=
  [{'; '.join(f'({lit(p)}, {s})' for p, s in steps)}].
(* data_script = f"<prefix>{{escaped json.dumps(spending_data)}}<suffix>"  (json.dumps default settings) *)
(* replaces applied to the json.dumps output before it is framed, in application order *)
Definition data_escape_steps : list (text * text) :=
  [{'; '.join(f'({lit(a)}, {lit(b)})' for a, b in escape_steps)}].
Definition data_prefix : text := {lit(prefix)}.
Definition data_suffix : text := {lit(suffix)}.
(* (local variable or output key, stats key it is read from) per output function *)
Definition binds_html : list (string * string) := {blist(binds['html'])}%string.
Definition binds_markdown : list (string * string) := {blist(binds['markdown'])}%string.
Definition binds_text : list (string * string) := {blist(binds['text'])}%string.
Definition binds_sections : list (string * string) := {blist(binds['sections'])}%string.
Definition binds_json : list (string * string) := {blist(binds['json'])}%string.
End C12Embed.
'''
    return {'Gen/C12MerchantId.v': mid, 'Gen/C12Embed.v': emb}


def replaced_texts(src_dir):
    """Every constant text that write_summary_file_vue replaces in the template/document (first argument of a
    .replace whose receiver chain starts at html_template or final_html) plus every /* MARKER */ of the template."""
    import re
    out = []
    rp = os.path.join(src_dir, 'report.py')
    mod = ast.parse(open(rp, encoding='utf-8').read(), rp)
    w = find_func(mod.body, 'write_summary_file_vue', 'report.py')
    for n in ast.walk(w):
        if isinstance(n, ast.Call) and isinstance(n.func, ast.Attribute) and n.func.attr == 'replace' and n.args and \
                isinstance(n.args[0], ast.Constant) and isinstance(n.args[0].value, str):
            e = n.func.value
            while isinstance(e, ast.Call) and isinstance(e.func, ast.Attribute):
                e = e.func.value
            if isinstance(e, ast.Name) and e.id in ('html_template', 'final_html'):
                out.append(n.args[0].value)
    try:
        tpl = open(os.path.join(src_dir, 'spending_report.html'), encoding='utf-8').read()
        out += re.findall(r'/\*\s*[A-Za-z0-9_ ]*PLACEHOLDER[A-Za-z0-9_ ]*\*/', tpl)
    except OSError:
        pass
    seen, res = set(), []
    for x in out:
        if x and x not in seen:
            seen.add(x)
            res.append(x)
    return res


if __name__ == '__main__':
    import sys
    for k, v in translate(sys.argv[1] if len(sys.argv) > 1 else '/repo/src/tally').items():
        print('(* ==== ' + k + ' ==== *)')
        print(v)
