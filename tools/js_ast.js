// Dump the ESTree of a JS file using node's bundled acorn (node --expose-internals).
const acorn = require('internal/deps/acorn/acorn/dist/acorn');
const fs = require('fs');
const src = fs.readFileSync(process.argv[2], 'utf8');
const ast = acorn.parse(src, { ecmaVersion: 2022, sourceType: 'script', locations: true });
process.stdout.write(JSON.stringify(ast));
