#!/usr/bin/env python3
"""C08 static table: every call of an expression-evaluation entry point in src/tally (outside
expr_parser.py itself), with the exception classes caught by the innermost enclosing try and what the
handler does; plus the facts about the evaluators' own `evaluate` wrappers (every non-ExpressionError
Exception is converted to ExpressionError). Emits Gen/C08CatchSites.v. Syntax only; fail closed."""
import ast
import os
import sys

ENTRY = {'evaluate_transaction', 'evaluate_transaction_ast', 'matches_transaction', 'evaluate', 'evaluate_ast',
         'evaluate_filter'}


def cq(s):
    return '"' + ''.join(c if 32 <= ord(c) < 127 and c != '"' else ('""' if c == '"' else '?') for c in s) + '"'


def handler_names(h):
    if h.type is None:
        return ['BaseException']
    ts = h.type.elts if isinstance(h.type, ast.Tuple) else [h.type]
    out = []
    for t in ts:
        if isinstance(t, ast.Name):
            out.append(t.id)
        elif isinstance(t, ast.Attribute):
            out.append(t.attr)
        else:
            out.append('?')
    return out


def handler_action(h):
    """continue / pass / return / assign / raise / other — what the handler does (first statement kind)."""
    kinds = []
    for s in h.body:
        if isinstance(s, ast.Continue):
            kinds.append('continue')
        elif isinstance(s, ast.Pass):
            kinds.append('pass')
        elif isinstance(s, ast.Return):
            kinds.append('return:' + repr(s.value.value) if isinstance(s.value, ast.Constant) else
                         ('return' if s.value is None else 'return:expr'))
        elif isinstance(s, ast.Raise):
            kinds.append('raise')
        elif isinstance(s, (ast.Assign, ast.AugAssign)):
            kinds.append('assign')
        elif isinstance(s, ast.Expr):
            kinds.append('expr')
        elif isinstance(s, ast.If):
            kinds.append('if')
        else:
            kinds.append(type(s).__name__)
    return '+'.join(kinds)


def is_eval_call(n):
    if not isinstance(n, ast.Call):
        return None
    f = n.func
    if isinstance(f, ast.Attribute) and isinstance(f.value, ast.Name) and f.value.id == 'expr_parser' and f.attr in ENTRY:
        return 'expr_parser.' + f.attr
    if isinstance(f, ast.Name) and f.id in ENTRY - {'evaluate'}:
        return f.id
    if isinstance(f, ast.Attribute) and f.attr == 'evaluate' and isinstance(f.value, ast.Name) and f.value.id == 'evaluator':
        return 'evaluator.evaluate'
    return None


def sites_in(path, rel):
    tree = ast.parse(open(path).read())
    out = []

    def visit(node, fn, tries):
        for child in ast.iter_child_nodes(node):
            if isinstance(child, (ast.FunctionDef, ast.AsyncFunctionDef)):
                visit(child, (fn + '.' if fn else '') + child.name, [])
            elif isinstance(child, ast.ClassDef):
                visit(child, child.name, [])
            elif isinstance(child, ast.Try):
                for s in child.body:
                    visit_stmt(s, fn, tries + [child])
                for h in child.handlers:
                    for s in h.body:
                        visit_stmt(s, fn, tries)
                for s in child.orelse + child.finalbody:
                    visit_stmt(s, fn, tries)
            else:
                c = is_eval_call(child)
                if c:
                    if tries:
                        t = tries[-1]
                        caught = sorted({n for h in t.handlers for n in handler_names(h)})
                        acts = sorted({handler_action(h) for h in t.handlers})
                    else:
                        caught, acts = [], []
                    out.append((rel, fn or '<module>', c, child.lineno, caught, acts))
                visit(child, fn, tries)

    def visit_stmt(s, fn, tries):
        # wrap so that `s` itself is inspected as a child
        holder = ast.Module(body=[s], type_ignores=[])
        visit(holder, fn, tries)

    visit(tree, '', [])
    return out


def evaluator_wrappers(path):
    """For each class with an `evaluate(self, node)` method: does the dispatch sit in a try whose handlers
    are exactly [ExpressionError -> raise] and [Exception -> raise ExpressionError(...)] ?"""
    tree = ast.parse(open(path).read())
    res = []
    for cls in tree.body:
        if not isinstance(cls, ast.ClassDef):
            continue
        for fn in cls.body:
            if isinstance(fn, ast.FunctionDef) and fn.name == 'evaluate':
                ok = False
                for n in ast.walk(fn):
                    if isinstance(n, ast.Try):
                        hs = [(handler_names(h), h) for h in n.handlers]
                        conv = False
                        reraise_first = bool(hs) and hs[0][0] == ['ExpressionError'] and len(hs[0][1].body) == 1 and \
                            isinstance(hs[0][1].body[0], ast.Raise) and hs[0][1].body[0].exc is None
                        for names, h in hs[1:]:
                            if names == ['Exception'] and len(h.body) == 1 and isinstance(h.body[0], ast.Raise) and \
                                    isinstance(h.body[0].exc, ast.Call) and isinstance(h.body[0].exc.func, ast.Name) and \
                                    h.body[0].exc.func.id == 'ExpressionError':
                                conv = True
                        dispatch_inside = any(isinstance(r, ast.Return) for s in n.body for r in ast.walk(s))
                        ok = ok or (reraise_first and conv and dispatch_inside)
                res.append((cls.name, ok))
    # the class hierarchy of the error types
    bases = {}
    for cls in tree.body:
        if isinstance(cls, ast.ClassDef):
            bases[cls.name] = [b.id for b in cls.bases if isinstance(b, ast.Name)]
    return res, bases


def render(src_dir):
    sites = []
    for dp, _, fs in os.walk(src_dir):
        for f in sorted(fs):
            if f.endswith('.py') and f != 'expr_parser.py':
                p = os.path.join(dp, f)
                sites += sites_in(p, os.path.relpath(p, src_dir))
    wrappers, bases = evaluator_wrappers(os.path.join(src_dir, 'expr_parser.py'))
    sites.sort()
    out = ['(* GENERATED by tools/c08_catch_sites.py from src/tally/**/*.py — do not edit *)',
           'From Coq Require Import String List Bool.', 'Import ListNotations.', 'Open Scope string_scope.', '',
           'Module C08Sites.', '',
           '(* (file, enclosing function, evaluation entry point called, classes caught by the innermost enclosing try,',
           '    what the handlers do) — line numbers are in the comments only *)',
           'Definition sites : list (string * string * string * list string * list string) := [']
    rows = []
    for rel, fn, c, ln, caught, acts in sites:
        rows.append(f'  ({cq(rel)}, {cq(fn)}, {cq(c)}, [{"; ".join(cq(x) for x in caught)}], [{"; ".join(cq(x) for x in acts)}]) (* line {ln} *)')
    out.append(';\n'.join(rows))
    out += ['].', '',
            '(* evaluator classes whose evaluate() converts every non-ExpressionError Exception into ExpressionError *)',
            'Definition wrappers : list (string * bool) := [' + '; '.join(f'({cq(c)}, {"true" if ok else "false"})' for c, ok in wrappers) + '].', '',
            'Definition error_bases : list (string * list string) := [' +
            '; '.join(f'({cq(k)}, [{"; ".join(cq(b) for b in v)}])' for k, v in sorted(bases.items()) if 'Error' in k) + '].', '',
            'End C08Sites.', '']
    return '\n'.join(out)


if __name__ == '__main__':
    print(render(sys.argv[1]))
