#!/usr/bin/env python3
"""Fail-closed translator for tally.parsers.parse_amount -> coq/theories/Gen/C05Amount.v.

parse_amount is a straight line of string operations.  The translator accepts exactly that shape
(strip; parenthesised-negative test + [1:-1]; re.sub of a literal character class; strip; one
`if decimal_separator == <lit>` whose branches are chains of str.replace with literal arguments;
float(); sign flip) and emits the *literals* (parentheses, currency symbols as UTF-8 byte lists,
separator, the two replace chains) as Gallina definitions.  C05/Model.v's parse_amount is the
generic interpreter of that shape over those tables, so the theorems of C05 are re-checked against
the literals the source has now.  Any other statement, call, operator or argument is
Untranslatable (= broken tie, the check then searches for a failing input)."""
import ast
import sys


class Untranslatable(Exception):
    pass


def _fail(node, why):
    raise Untranslatable(f"parse_amount:{getattr(node, 'lineno', '?')}: {why}: {ast.dump(node)[:160]}")


def _is_name(n, name):
    return isinstance(n, ast.Name) and n.id == name


def _const_str(n):
    if isinstance(n, ast.Constant) and isinstance(n.value, str):
        return n.value
    _fail(n, 'expected a string literal')


def _method_call(n, obj_pred, meth, nargs):
    """n is  <obj>.<meth>(<nargs args>)  with no keywords -> (obj, args)"""
    if not (isinstance(n, ast.Call) and isinstance(n.func, ast.Attribute) and n.func.attr == meth
            and len(n.args) == nargs and not n.keywords):
        _fail(n, f'expected .{meth}() with {nargs} argument(s)')
    if obj_pred is not None and not obj_pred(n.func.value):
        _fail(n, f'unexpected receiver of .{meth}()')
    return n.func.value, n.args


def _assign_to(s, name):
    if not (isinstance(s, ast.Assign) and len(s.targets) == 1 and _is_name(s.targets[0], name)):
        _fail(s, f'expected assignment to {name}')
    return s.value


def _replace_chain(e, var):
    """var.replace(a,b).replace(c,d)... -> [(a,b),(c,d)]"""
    ops = []
    while not _is_name(e, var):
        obj, args = _method_call(e, None, 'replace', 2)
        a, b = _const_str(args[0]), _const_str(args[1])
        if a == '':
            _fail(e, 'replace of the empty string')
        ops.append((a, b))
        e = obj
    return list(reversed(ops))


def _branch(stmts, var):
    ops = []
    for s in stmts:
        ops += _replace_chain(_assign_to(s, var), var)
    if not ops:
        raise Untranslatable('parse_amount: empty separator branch')
    return ops


def extract(path):
    tree = ast.parse(open(path, encoding='utf-8').read())
    fns = [n for n in tree.body if isinstance(n, ast.FunctionDef) and n.name == 'parse_amount']
    if len(fns) != 1:
        raise Untranslatable('parse_amount: function not found (or defined twice)')
    fn = fns[0]
    a = fn.args
    if [x.arg for x in a.args] != ['amount_str', 'decimal_separator'] or a.vararg or a.kwarg or a.kwonlyargs \
            or a.posonlyargs or len(a.defaults) != 1 or fn.decorator_list:
        raise Untranslatable('parse_amount: signature changed')
    default_sep = _const_str(a.defaults[0])
    body = list(fn.body)
    if body and isinstance(body[0], ast.Expr) and isinstance(body[0].value, ast.Constant) \
            and isinstance(body[0].value.value, str):
        body = body[1:]
    if len(body) != 7:
        raise Untranslatable(f'parse_amount: expected 7 statements, found {len(body)}')
    V = 'amount_str'
    is_v = lambda n: _is_name(n, V)  # noqa
    # 0: amount_str = amount_str.strip()
    _, args = _method_call(_assign_to(body[0], V), is_v, 'strip', 0)
    # 1: negative = False
    v = _assign_to(body[1], 'negative')
    if not (isinstance(v, ast.Constant) and v.value is False):
        _fail(body[1], 'expected negative = False')
    # 2: if amount_str.startswith(o) and amount_str.endswith(c): negative = True; amount_str = amount_str[1:-1]
    s = body[2]
    if not (isinstance(s, ast.If) and not s.orelse and isinstance(s.test, ast.BoolOp) and isinstance(s.test.op, ast.And)
            and len(s.test.values) == 2 and len(s.body) == 2):
        _fail(s, 'expected the parenthesised-negative test')
    _, (o,) = _method_call(s.test.values[0], is_v, 'startswith', 1)
    _, (c,) = _method_call(s.test.values[1], is_v, 'endswith', 1)
    p_open, p_close = _const_str(o), _const_str(c)
    if len(p_open.encode()) != 1 or len(p_close.encode()) != 1:
        _fail(s, 'parenthesis markers must be single ASCII characters (the slice is [1:-1])')
    v = _assign_to(s.body[0], 'negative')
    if not (isinstance(v, ast.Constant) and v.value is True):
        _fail(s.body[0], 'expected negative = True')
    v = _assign_to(s.body[1], V)
    ok = isinstance(v, ast.Subscript) and is_v(v.value) and isinstance(v.slice, ast.Slice) and v.slice.step is None \
        and isinstance(v.slice.lower, ast.Constant) and v.slice.lower.value == 1 \
        and isinstance(v.slice.upper, ast.UnaryOp) and isinstance(v.slice.upper.op, ast.USub) \
        and isinstance(v.slice.upper.operand, ast.Constant) and v.slice.upper.operand.value == 1
    if not ok:
        _fail(s.body[1], 'expected amount_str[1:-1]')
    # 3: amount_str = re.sub(r'[...]', '', amount_str).strip()
    obj, _ = _method_call(_assign_to(body[3], V), None, 'strip', 0)
    if not (isinstance(obj, ast.Call) and isinstance(obj.func, ast.Attribute) and obj.func.attr == 'sub'
            and _is_name(obj.func.value, 're') and len(obj.args) == 3 and not obj.keywords and is_v(obj.args[2])
            and _const_str(obj.args[1]) == ''):
        _fail(body[3], "expected re.sub(<class>, '', amount_str).strip()")
    pat = _const_str(obj.args[0])
    if not (len(pat) >= 3 and pat[0] == '[' and pat[-1] == ']') or any(ch in '\\^-[]' for ch in pat[1:-1]):
        _fail(body[3], 'currency pattern is not a plain character class')
    symbols = list(pat[1:-1])
    # 4: if decimal_separator == ',': ... else: ...
    s = body[4]
    if not (isinstance(s, ast.If) and isinstance(s.test, ast.Compare) and _is_name(s.test.left, 'decimal_separator')
            and len(s.test.ops) == 1 and isinstance(s.test.ops[0], ast.Eq) and s.orelse):
        _fail(s, 'expected if decimal_separator == <literal>: ... else: ...')
    eu_sep = _const_str(s.test.comparators[0])
    eu_ops, us_ops = _branch(s.body, V), _branch(s.orelse, V)
    # 5: result = float(amount_str)
    v = _assign_to(body[5], 'result')
    if not (isinstance(v, ast.Call) and _is_name(v.func, 'float') and len(v.args) == 1 and is_v(v.args[0]) and not v.keywords):
        _fail(body[5], 'expected result = float(amount_str)')
    # 6: return -result if negative else result
    s = body[6]
    ok = isinstance(s, ast.Return) and isinstance(s.value, ast.IfExp) and _is_name(s.value.test, 'negative') \
        and isinstance(s.value.body, ast.UnaryOp) and isinstance(s.value.body.op, ast.USub) \
        and _is_name(s.value.body.operand, 'result') and _is_name(s.value.orelse, 'result')
    if not ok:
        _fail(s, 'expected return -result if negative else result')
    return {'paren_open': p_open, 'paren_close': p_close, 'currency_symbols': symbols, 'european_separator': eu_sep,
            'european_replaces': eu_ops, 'us_replaces': us_ops, 'default_separator': default_sep, 'lineno': fn.lineno}


def _bs(s):
    return '[' + '; '.join(str(b) for b in s.encode('utf-8')) + ']'


def render(t):
    def ops(l):
        return '[' + '; '.join(f'({_bs(a)}, {_bs(b)})' for a, b in l) + ']'
    return '\n'.join([
        f"(* GENERATED by tools/c05_amount2coq.py from parsers.py:{t['lineno']} parse_amount — do not edit *)",
        'From Coq Require Import List NArith.', 'Import ListNotations.', 'Open Scope N_scope.', '',
        '(* text is UTF-8 bytes *)',
        f"Definition paren_open : list N := {_bs(t['paren_open'])}.   (* {t['paren_open']!r} *)",
        f"Definition paren_close : list N := {_bs(t['paren_close'])}.   (* {t['paren_close']!r} *)",
        '(* re.sub of this character class with the empty string *)',
        f"Definition currency_symbols : list (list N) := [{'; '.join(_bs(c) for c in t['currency_symbols'])}].",
        f"Definition european_separator : list N := {_bs(t['european_separator'])}.",
        '(* str.replace chains of the two branches, in order *)',
        f"Definition european_replaces : list (list N * list N) := {ops(t['european_replaces'])}.",
        f"Definition us_replaces : list (list N * list N) := {ops(t['us_replaces'])}.",
        f"Definition default_separator : list N := {_bs(t['default_separator'])}.", ''])


def translate(path):
    return render(extract(path))


if __name__ == '__main__':
    print(translate(sys.argv[1]))
