#!/usr/bin/env python3
"""Fail-closed ESTree -> Gallina translator for the classification block of
spending_report.js (same target signature as py2coq.py: Lib.NumOps.numops).
The ESTree comes from node's bundled acorn (tools/js_ast.js)."""
import json
import subprocess
import sys
import os

HERE = os.path.dirname(os.path.abspath(__file__))


class Untranslatable(Exception):
    pass


def coq_string(s):
    for ch in s:
        if ord(ch) < 32 or ord(ch) > 126:
            raise Untranslatable(f'non-ASCII literal {s!r}')
    return '"' + s.replace('"', '""') + '"'


def js_ast(path):
    p = subprocess.run(['node', '--expose-internals', os.path.join(HERE, 'js_ast.js'), path],
                       capture_output=True, text=True, timeout=60)
    if p.returncode != 0:
        raise Untranslatable('acorn failed: ' + p.stderr[-300:])
    return json.loads(p.stdout)


class Fn:
    def __init__(self, name, known, consts, params):
        self.name, self.known, self.consts = name, known, consts
        self.locals = set(params)

    def fail(self, n, why):
        raise Untranslatable(f"{self.name}:{n.get('loc', {}).get('start', {}).get('line', '?')}: {why}: {n.get('type')}")

    def expr(self, e):
        t = e['type']
        if t == 'Literal':
            v = e['value']
            if isinstance(v, bool):
                return 'true' if v else 'false'
            if isinstance(v, str):
                return coq_string(v)
            if isinstance(v, (int, float)) and v == 0:
                return '(nzero O)'
            self.fail(e, 'literal')
        if t == 'Identifier':
            if e['name'] in self.locals or e['name'] in self.consts:
                return e['name']
            self.fail(e, 'unknown identifier ' + e['name'])
        if t == 'LogicalExpression':
            if e['operator'] == '||' and e['right']['type'] == 'ArrayExpression' and not e['right']['elements']:
                return f"(or_nil {self.expr(e['left'])})"
            op = {'||': '||', '&&': '&&'}.get(e['operator'])
            if not op:
                self.fail(e, 'logical op')
            return f"({self.expr(e['left'])} {op} {self.expr(e['right'])})%bool"
        if t == 'UnaryExpression' and e['operator'] == '!':
            return f"(negb {self.expr(e['argument'])})"
        if t == 'BinaryExpression':
            op, l, r = e['operator'], e['left'], e['right']
            if r['type'] == 'Literal' and r['value'] == 0 and not isinstance(r['value'], bool):
                tbl = {'>': 'ngt0', '<': 'nlt0', '>=': 'nge0', '<=': 'nle0'}
                if op in tbl:
                    return f'({tbl[op]} O {self.expr(l)})'
            if op == '+':
                return f'(nadd O {self.expr(l)} {self.expr(r)})'
            if op == '-':
                return f'(nsub O {self.expr(l)} {self.expr(r)})'
            self.fail(e, 'binary op ' + op)
        if t == 'NewExpression' and e['callee'].get('name') == 'Set' and len(e['arguments']) == 1:
            return self.expr(e['arguments'][0])
        if t == 'ArrayExpression':
            return '[' + '; '.join(self.expr(x) for x in e['elements']) + ']'
        if t == 'ObjectExpression':
            items = []
            for p in e['properties']:
                if p['type'] != 'Property' or p['computed'] or p['kind'] != 'init':
                    self.fail(e, 'object property')
                k = p['key']['name'] if p['key']['type'] == 'Identifier' else p['key']['value']
                items.append(f"({coq_string(k)}, {self.expr(p['value'])})")
            return '[' + '; '.join(items) + ']'
        if t == 'CallExpression':
            c, args = e['callee'], e['arguments']
            if c['type'] == 'Identifier':
                if c['name'] in self.known:
                    return '(' + ' '.join([c['name'], 'O'] + [self.expr(a) for a in args]) + ')'
                self.fail(e, 'call of unknown function ' + c['name'])
            if c['type'] == 'MemberExpression' and not c['computed']:
                m, obj = c['property']['name'], c['object']
                if obj['type'] == 'Identifier' and obj['name'] == 'Math' and m == 'abs' and len(args) == 1:
                    return f'(nabs O {self.expr(args[0])})'
                if m == 'has' and len(args) == 1:
                    return f'(mem {self.expr(args[0])} {self.expr(obj)})'
                if m == 'toLowerCase' and not args:
                    return f'(lower_fn O {self.expr(obj)})'
                if m == 'map' and len(args) == 1 and args[0]['type'] == 'ArrowFunctionExpression' \
                        and len(args[0]['params']) == 1 and args[0]['expression']:
                    v = args[0]['params'][0]['name']
                    self.locals.add(v)
                    b = self.expr(args[0]['body'])
                    self.locals.discard(v)
                    return f'(map (fun {v} => {b}) {self.expr(obj)})'
            self.fail(e, 'call')
        if t == 'MemberExpression' and not e['computed'] and e['object']['type'] == 'Identifier' \
                and e['object']['name'] in self.locals:
            return f"(dget {e['object']['name']} {coq_string(e['property']['name'])} (nzero O))"
        self.fail(e, 'expression')

    @staticmethod
    def stmts_of(n):
        return n['body'] if n['type'] == 'BlockStatement' else [n]

    def always_returns(self, ss):
        if not ss:
            return False
        last = ss[-1]
        if last['type'] == 'ReturnStatement':
            return True
        if last['type'] == 'IfStatement' and last.get('alternate'):
            return self.always_returns(self.stmts_of(last['consequent'])) and \
                self.always_returns(self.stmts_of(last['alternate']))
        return False

    def contains_return(self, n):
        if isinstance(n, dict):
            if n.get('type') == 'ReturnStatement':
                return True
            return any(self.contains_return(v) for v in n.values())
        if isinstance(n, list):
            return any(self.contains_return(v) for v in n)
        return False

    def assigned(self, n, out):
        if isinstance(n, dict):
            if n.get('type') == 'AssignmentExpression':
                l = n['left']
                name = l['name'] if l['type'] == 'Identifier' else (
                    l['object']['name'] if l['type'] == 'MemberExpression' and l['object']['type'] == 'Identifier' else None)
                if name and name not in out:
                    out.append(name)
            for v in n.values():
                self.assigned(v, out)
        elif isinstance(n, list):
            for v in n:
                self.assigned(v, out)
        return out

    def block(self, ss, tail):
        if not ss:
            if tail is None:
                raise Untranslatable(f'{self.name}: control reaches end without return')
            return tail
        s, rest = ss[0], ss[1:]
        t = s['type']
        if t == 'ReturnStatement':
            if not s.get('argument'):
                self.fail(s, 'bare return')
            return self.expr(s['argument'])
        if t == 'VariableDeclaration' and s['kind'] in ('const', 'let') and len(s['declarations']) == 1 \
                and s['declarations'][0]['id']['type'] == 'Identifier' and s['declarations'][0].get('init'):
            d = s['declarations'][0]
            v = self.expr(d['init'])
            self.locals.add(d['id']['name'])
            return f"let {d['id']['name']} := {v} in\n    {self.block(rest, tail)}"
        if t == 'ExpressionStatement' and s['expression']['type'] == 'AssignmentExpression' \
                and s['expression']['operator'] == '=':
            l = s['expression']['left']
            if l['type'] == 'MemberExpression' and not l['computed'] and l['object']['type'] == 'Identifier' \
                    and l['object']['name'] in self.locals:
                d = l['object']['name']
                return (f"let {d} := dset {d} {coq_string(l['property']['name'])} {self.expr(s['expression']['right'])} in\n"
                        f"    {self.block(rest, tail)}")
            self.fail(s, 'assignment target')
        if t == 'ForOfStatement':
            # for (const x of XS) { if (c) return true; }  return false;   ==> existsb
            body = self.stmts_of(s['body'])
            ok = (s['left']['type'] == 'VariableDeclaration' and len(body) == 1 and body[0]['type'] == 'IfStatement'
                  and not body[0].get('alternate') and len(rest) >= 1 and rest[0]['type'] == 'ReturnStatement')
            if ok:
                ret_in = self.stmts_of(body[0]['consequent'])
                ok = (len(ret_in) == 1 and ret_in[0]['type'] == 'ReturnStatement'
                      and ret_in[0]['argument'].get('value') is True and rest[0]['argument'].get('value') is False)
            if not ok:
                self.fail(s, 'for-of shape')
            v = s['left']['declarations'][0]['id']['name']
            self.locals.add(v)
            c = self.expr(body[0]['test'])
            self.locals.discard(v)
            return f"(existsb (fun {v} => {c}) {self.expr(s['right'])})"
        if t == 'IfStatement':
            c = self.expr(s['test'])
            cons = self.stmts_of(s['consequent'])
            alt = self.stmts_of(s['alternate']) if s.get('alternate') else []
            if not self.contains_return(s):
                w = self.assigned(s, [])
                for x in w:
                    if x not in self.locals:
                        self.fail(s, f'variable {x} first assigned in a branch')
                tup = w[0] if len(w) == 1 else '(' + ', '.join(w) + ')'
                pat = w[0] if len(w) == 1 else "'(" + ', '.join(w) + ')'
                b1, b2 = self.block(cons, tup), self.block(alt, tup)
                return f"let {pat} := (if {c} then ({b1}) else ({b2})) in\n    {self.block(rest, tail)}"
            if self.always_returns(cons):
                saved = set(self.locals)
                b1 = self.block(cons, None)
                self.locals = set(saved)
                b2 = self.block(alt + rest, tail)
                return f'if {c} then ({b1}) else ({b2})'
            self.fail(s, 'if with partial return')
        self.fail(s, 'statement')


def free_idents(n, out):
    if isinstance(n, dict):
        if n.get('type') == 'Identifier':
            out.add(n['name'])
        for k, v in n.items():
            if k == 'property' and n.get('type') == 'MemberExpression' and not n.get('computed'):
                continue
            if k == 'key' and n.get('type') == 'Property' and not n.get('computed'):
                continue
            free_idents(v, out)
    elif isinstance(n, list):
        for v in n:
            free_idents(v, out)
    return out


def needed(ast, roots, fname='spending_report.js'):
    top, order = {}, []
    for node in ast['body']:
        if node['type'] == 'FunctionDeclaration':
            top[node['id']['name']] = (node, node)
            order.append(node['id']['name'])
        elif node['type'] == 'VariableDeclaration':
            for d in node['declarations']:
                if d['id']['type'] == 'Identifier':
                    top[d['id']['name']] = (d, node)
                    order.append(d['id']['name'])
    for r in roots:
        if r not in top:
            raise Untranslatable(f'{fname}: expected function {r} not found')
    need, stack = set(), list(roots)
    while stack:
        n = stack.pop()
        if n in need:
            continue
        need.add(n)
        for i in free_idents(top[n][0], set()):
            if i in top and i not in need:
                stack.append(i)
    return top, [n for n in order if n in need]


def needed_source(path, roots):
    """Source text of exactly the top-level declarations the roots depend on (for node)."""
    ast = js_ast(path)
    src = open(path, encoding='utf8').read()
    top, names = needed(ast, roots, os.path.basename(path))
    return '\n'.join(src[top[n][1]['start']:top[n][1]['end']] for n in names)


def translate(path, section, roots):
    ast = js_ast(path)
    top2, names = needed(ast, roots, os.path.basename(path))
    top = {k: v[0] for k, v in top2.items()}
    order, need = names, set(names)
    consts, known, defs = {}, [], []
    for name in order:
        if name not in need:
            continue
        node = top[name]
        line = node['loc']['start']['line']
        if node['type'] == 'VariableDeclarator':
            f = Fn('<top>', known, consts, [])
            v = f.expr(node['init'])
            consts[name] = v
            defs.append(f'  (* spending_report.js:{line} *)\n  Definition {name} := {v}.\n')
        else:
            if node.get('async') or node.get('generator'):
                raise Untranslatable(f'{name}: async/generator')
            params = []
            for p in node['params']:
                if p['type'] != 'Identifier':
                    raise Untranslatable(f'{name}: parameter pattern')
                params.append(p['name'])
            f = Fn(name, list(known), consts, params)
            body = f.block(node['body']['body'], None)
            defs.append(f'  (* spending_report.js:{line} *)\n  Definition {name} {{num : Type}} (O : numops num) '
                        f'{" ".join(params)} :=\n    {body}.\n')
            known.append(name)
    out = [f'(* GENERATED by tools/js2coq.py from spending_report.js — do not edit *)',
           'From Coq Require Import String List Bool.', 'From Tally Require Import Lib.Str Lib.NumOps.',
           'Import ListNotations.', 'Open Scope string_scope.', '', f'Module {section}.', '']
    return '\n'.join(out + defs + [f'End {section}.', ''])


if __name__ == '__main__':
    print(translate(sys.argv[1], sys.argv[2], sys.argv[3:]))
