"""Entries for MANIFEST.json: tools/manifest_checks.json, overridden per property by tools/manifest_checks.d/<ID>.json
(one file per property, written only by its owner, so that concurrent edits cannot lose each other)."""
import glob
import json
import os

HERE = os.path.dirname(os.path.abspath(__file__))


def load():
    checks = json.load(open(os.path.join(HERE, 'manifest_checks.json')))
    for p in sorted(glob.glob(os.path.join(HERE, 'manifest_checks.d', '*.json'))):
        pid = os.path.splitext(os.path.basename(p))[0]
        e = json.load(open(p))
        if isinstance(e, dict) and pid in e and isinstance(e[pid], dict):
            e = e[pid]
        base = dict(checks.get(pid, {}))
        base.update(e)
        checks[pid] = base
    return checks
