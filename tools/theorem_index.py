#!/usr/bin/env python3
"""Markdown index of the theorems exported by every coq/theories/Cxx/Props.v (for DESIGN.md §12)."""
import glob, os, re
HERE = os.path.dirname(os.path.dirname(os.path.abspath(__file__)))
for p in sorted(glob.glob(os.path.join(HERE, 'coq', 'theories', 'C[0-9][0-9]', '*Props.v'))):
    pid = p.split(os.sep)[-2] + ('' if p.endswith(os.sep + 'Props.v') else ' (' + os.path.basename(p) + ')')
    src = open(p).read()
    thms = re.findall(r'^\s*Theorem\s+([A-Za-z0-9_\']+)', src, re.M)
    exs = re.findall(r'^\s*Example\s+([A-Za-z0-9_\']+)', src, re.M)
    defs = re.findall(r'^\s*Definition\s+([A-Za-z0-9_\']*_statement)\b', src, re.M)
    ref = [t for t in thms if 'refuted' in t]
    par = [t for t in thms if 'partial' in t]
    rest = [t for t in thms if t not in ref and t not in par]
    print(f'**{pid}** — {len(thms)} theorems, {len(exs)} examples.')
    print('proved: ' + ', '.join(f'`{t}`' for t in rest))
    if par:
        print('; guarded partials: ' + ', '.join(f'`{t}`' for t in par))
    if ref:
        print('; refutations of full statements (witnesses replay on the code): ' + ', '.join(f'`{t}`' for t in ref))
    print()
