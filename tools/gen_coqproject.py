#!/usr/bin/env python3
"""Writes coq/_CoqProject listing every theory file present (used by setup.sh; the checks
themselves compile explicit per-property file lists with coqc)."""
import os
HERE = os.path.dirname(os.path.dirname(os.path.abspath(__file__)))
coq = os.path.join(HERE, 'coq')
files = []
for dp, dn, fs in os.walk(os.path.join(coq, 'theories')):
    for f in fs:
        if f.endswith('.v'):
            files.append(os.path.relpath(os.path.join(dp, f), coq))
with open(os.path.join(coq, '_CoqProject'), 'w') as f:
    f.write('-Q theories Tally\n' + '\n'.join(sorted(files)) + '\n')
print(len(files), 'theory files')
