#!/usr/bin/env python3
"""Refreshes the generated sections of DESIGN.md (§11 findings, §12 theorem index) between markers."""
import os, re, subprocess
HERE = os.path.dirname(os.path.dirname(os.path.abspath(__file__)))
p = os.path.join(HERE, 'DESIGN.md')
s = open(p).read()
def run(t):
    return subprocess.run(['python3', os.path.join(HERE, 'tools', t)], capture_output=True, text=True).stdout
import json as _json
import sys as _sys
_sys.path.insert(0, os.path.join(HERE, 'tools'))
import load_checks
_checks = load_checks.load()
_asbuilt = ''.join(f"**{k}.** {v['text']}\n\n*Trusted / outside the model:* {v['note']}\n\n" for k, v in sorted(_checks.items()))
blocks = {
 'ASBUILT': '## 4b. What each check proves and ties, as built (generated from tools/manifest_checks.json = MANIFEST level texts)\n\n'
            'Section 4 above is the round-0 plan; this is what exists. Theorem names are listed in section 12.\n\n' + _asbuilt,
 'SEEDS': '## 10b. Seeded changes of rounds 4 to 9 (generated from seeded/*/meta.json)\n\n'
          'Rounds 4 and 5 asked fresh sub-agents for two more changes per property each, telling them which mechanisms earlier '
          'seeds had used and which weaknesses of the tree were already known, so that they would look elsewhere. "first run" is '
          'what the check as it stood reported (CAUGHT = VIOLATION with a concrete replay; CAUGHT-NOINPUT = only '
          '`no-failing-input-found`; MISSED = exit 0); every miss was turned into a deterministic corpus / boundary family plus '
          'its neighbours by the property owner, and the last column is the outcome of the final regression '
          '(`tools/test_all_seeds.sh`).\n\n' + run('seed_table.py'),
 'FINDINGS': '## 11. Findings on the unchanged tree (generated from known_findings.jsonl and known_findings.d/)\n\n'
             'Every entry was re-found by the machinery (signature = predicate over the failing case computed in the harness). '
             '`fixed <commit>` entries were repaired in /repo by a `fix:` commit and suppress nothing; `finding` entries are '
             'reported as KNOWN-FINDING lines. Proposed repairs not applied are in `proposed_fixes/`.\n\n' + run('findings_report.py'),
 'THEOREMS': '## 12. Theorems exported by the property files (generated from coq/theories/Cxx/Props.v)\n\n'
             'All are closed under the global context (`Print Assumptions`), except that C13 mentions Coq\'s primitive float '
             'operations. `coqchk -o` is run on each property module in the thorough tier.\n\n' + run('theorem_index.py'),
}
for k, body in blocks.items():
    a, b = f'<!-- BEGIN {k} -->', f'<!-- END {k} -->'
    if a in s:
        s = s[:s.index(a) + len(a)] + '\n' + body + '\n' + s[s.index(b):]
    else:
        s += f'\n-------------------------------------------------------------------------------\n\n{a}\n{body}\n{b}\n'
open(p, 'w').write(s)
print('DESIGN.md updated')
