#!/bin/bash
# test_all_seeds.sh [ids...] — apply each seeded/<id>/patch.diff to a scratch copy of /repo and run the owning
# property's quick check against it (VERIF_REPO). Prints one line per seed: CAUGHT (VIOLATION with input),
# CAUGHT-NOINPUT (only no-failing-input-found), MISSED, or NOAPPLY.
cd "$(dirname "$0")/.."
ids=${@:-$(ls seeded)}
for sid in $ids; do
  prop=$(python3 -c "import json;m=json.load(open('seeded/$sid/meta.json'));print(m.get('check_with') or m['breaks_property'])")
  cp=/tmp/vr-all-$sid-$$
  rm -rf $cp; cp -r /repo $cp
  if ! (cd $cp && git apply /verif/seeded/$sid/patch.diff 2>/dev/null); then echo "$sid $prop NOAPPLY"; rm -rf $cp; continue; fi
  VERIF_REPO=$cp ./check $prop quick > .work/seed_$sid.log 2>&1
  v=$(grep '^VIOLATION' .work/seed_$sid.log | grep -vc 'no-failing-input-found')
  n=$(grep '^VIOLATION' .work/seed_$sid.log | grep -c 'no-failing-input-found')
  if [ "$v" -gt 0 ]; then echo "$sid $prop CAUGHT ($v with input)"; elif [ "$n" -gt 0 ]; then echo "$sid $prop CAUGHT-NOINPUT"; else echo "$sid $prop MISSED"; fi
  rm -rf $cp
done
