#!/bin/bash
# confirm_all.sh <ids...> — confirm seeds in ONE scratch worktree: patch applies, baseline suite unchanged, demo fails with / passes without.
cd /verif
wt=/tmp/confirm-wt-$$
git -C /repo worktree add -q $wt HEAD
for sid in "$@"; do
  d=/verif/seeded/$sid
  (cd $wt && git checkout -q -- . && git apply $d/patch.diff) || { echo "$sid NOAPPLY"; continue; }
  t=$(cd $wt && PYTHONPATH=$wt/src /venv/bin/python -m pytest -q -p no:cacheprovider --timeout=900 --continue-on-collection-errors 2>&1 | grep -v WARNING | tail -1 | sed 's/ in .*//')
  /venv/bin/python $d/demo.py $wt >/dev/null 2>&1; p=$?
  (cd $wt && git checkout -q -- .)
  /venv/bin/python $d/demo.py $wt >/dev/null 2>&1; q=$?
  echo "$sid tests=[$t] demo_patched_exit=$p demo_pristine_exit=$q"
done
git -C /repo worktree remove --force $wt
