#!/bin/bash
# test_seeds.sh <PROP> <seed-out-dir>... — for each seed dir (containing patch.diff, demo.py): confirm it in its worktree
# (tests + demo) and run ./check PROP quick against a scratch copy of /repo with the patch applied (VERIF_REPO).
PROP=$1; shift
for d in "$@"; do
  wt=$(dirname $(dirname $d))
  echo "##### $PROP seed $d"
  /verif/tools/confirm_seed.sh $wt $d/patch.diff $d/demo.py 2>&1 | grep -v "^\.\.\.\|passed, 23 desel"
  cp=/tmp/vr-$PROP-$$
  rm -rf $cp && cp -r /repo $cp && (cd $cp && git apply $d/patch.diff) || { echo "PATCH DOES NOT APPLY to current /repo"; rm -rf $cp; continue; }
  (cd /verif && VERIF_REPO=$cp ./check $PROP quick 2>&1 | grep -v "WARNING\|KNOWN" | tail -4)
  rm -rf $cp
done
