#!/usr/bin/env python3
"""C03 static confinement certificate: walks the WHOLE of expr_parser.py and emits
Gen/C03Caps.v — the capability tables the Coq obligation `forallb safe_cap caps = true` ranges over.
Reads syntax only (never interprets code). Fail closed: anything it cannot classify becomes a cap of
kind "unclassified", which the Coq predicate rejects."""
import ast
import sys


def coq_string(s):
    out = []
    for ch in s:
        if ch == '"':
            out.append('""')
        elif 32 <= ord(ch) < 127:
            out.append(ch)
        else:
            out.append('?')
    return '"' + ''.join(out) + '"'


def coq_list(xs):
    return '[' + '; '.join(xs) + ']'


MODULE_ALIASES = set()
MUTATORS = {'append', 'extend', 'insert', 'remove', 'pop', 'clear', 'sort', 'reverse', 'update', 'setdefault', 'popitem',
            'add', 'discard', 'difference_update', 'intersection_update', 'symmetric_difference_update'}


def recv_class(node, local_modules):
    """Syntactic class of a receiver expression."""
    if isinstance(node, ast.Name):
        if node.id == 'self':
            return 'self'
        if node.id == 'cls':
            return 'cls'
        if node.id in local_modules:
            return 'module:' + node.id
        return 'value'          # a local/parameter: may hold operand-derived data
    if isinstance(node, ast.Attribute):
        base = recv_class(node.value, local_modules)
        if base == 'self':
            return 'self.' + node.attr
        if base.startswith('self.'):
            return 'value'       # attribute of context data (self.ctx.description …): data
        if base.startswith('module:'):
            return base + '.' + node.attr
        return 'value'
    if isinstance(node, ast.Call):
        return 'value'
    if isinstance(node, ast.Constant):
        return 'const'
    if isinstance(node, (ast.Subscript, ast.BinOp, ast.JoinedStr, ast.IfExp, ast.BoolOp, ast.ListComp, ast.List,
                         ast.Tuple, ast.Dict, ast.Set, ast.GeneratorExp, ast.Compare, ast.UnaryOp)):
        return 'value'
    return 'unclassified'


def name_arg_class(node):
    if isinstance(node, ast.Constant) and isinstance(node.value, str):
        return 'const:' + node.value
    if isinstance(node, ast.JoinedStr) and node.values and isinstance(node.values[0], ast.Constant) \
            and isinstance(node.values[0].value, str) and node.values[0].value:
        return 'prefix:' + node.values[0].value
    return 'dynamic'


def extract(path):
    src = open(path).read()
    tree = ast.parse(src)
    caps = []          # (kind, where, a, b)
    imports = []
    modules = set()
    # function-local names that are assigned from a getattr/prefix f-string (e.g. method = f'_eval_{…}')
    for node in ast.walk(tree):
        if isinstance(node, ast.Import):
            for a in node.names:
                imports.append(a.name)
                modules.add(a.asname or a.name.split('.')[0])
        elif isinstance(node, ast.ImportFrom):
            for a in node.names:
                imports.append(f'{node.module}.{a.name}')
                modules.add(a.asname or a.name)

    allowed = []
    for node in tree.body:
        if isinstance(node, ast.Assign) and any(isinstance(t, ast.Name) and t.id == 'ALLOWED_NODES' for t in node.targets):
            if not isinstance(node.value, ast.Set):
                caps.append(('unclassified', 'ALLOWED_NODES', 'not a set literal', ''))
            else:
                for e in node.value.elts:
                    if isinstance(e, ast.Attribute) and isinstance(e.value, ast.Name) and e.value.id == 'ast':
                        allowed.append(e.attr)
                    else:
                        caps.append(('unclassified', 'ALLOWED_NODES', ast.dump(e)[:60], ''))
    # any later mutation of ALLOWED_NODES (add/update/|=) is a capability
    for node in ast.walk(tree):
        if isinstance(node, ast.AugAssign) and isinstance(node.target, ast.Name) and node.target.id == 'ALLOWED_NODES':
            caps.append(('unclassified', 'ALLOWED_NODES', 'augmented assignment', ''))
        if isinstance(node, ast.Call) and isinstance(node.func, ast.Attribute) and isinstance(node.func.value, ast.Name) \
                and node.func.value.id == 'ALLOWED_NODES':
            caps.append(('unclassified', 'ALLOWED_NODES', 'method call ' + node.func.attr, ''))

    handled = []
    fn_names, str_methods = [], []

    def walk_fn(fn, where):
        # local variable -> class of the value bound to it, for getattr name arguments (method = f'_eval_{…}')
        local_name_class = {}
        for n in ast.walk(fn):
            if isinstance(n, ast.Assign) and len(n.targets) == 1 and isinstance(n.targets[0], ast.Name):
                c = name_arg_class(n.value)
                prev = local_name_class.get(n.targets[0].id)
                local_name_class[n.targets[0].id] = c if prev in (None, c) else 'dynamic'
        for dflt in list(fn.args.defaults) + [d for d in fn.args.kw_defaults if d is not None]:
            if isinstance(dflt, (ast.Dict, ast.List, ast.Set, ast.Call, ast.ListComp, ast.DictComp, ast.SetComp)):
                # a mutable default is shared by every call: state leaking between evaluations
                caps.append(('mutable_default', where, ast.unparse(dflt)[:40], ''))
        local_src = {}
        for a in fn.args.args + fn.args.kwonlyargs + ([fn.args.vararg] if fn.args.vararg else []) + \
                ([fn.args.kwarg] if fn.args.kwarg else []):
            local_src[a.arg] = 'param'
        for n in ast.walk(fn):
            if isinstance(n, ast.FunctionDef) and n is not fn:
                local_src[n.name] = 'localdef'
            elif isinstance(n, ast.Lambda):
                caps.append(('unclassified', where, 'lambda', ''))
            elif isinstance(n, ast.Assign):
                for t in n.targets:
                    for tn in ast.walk(t):
                        if isinstance(tn, ast.Name):
                            v = n.value
                            if isinstance(v, ast.Call) and isinstance(v.func, ast.Attribute):
                                src_c = 'from:' + recv_class(v.func.value, modules) + '.' + v.func.attr
                            else:
                                src_c = 'other'
                            prev = local_src.get(tn.id)
                            local_src[tn.id] = src_c if prev in (None, src_c) else 'mixed'
            elif isinstance(n, (ast.For, ast.comprehension)):
                for tn in ast.walk(n.target):
                    if isinstance(tn, ast.Name):
                        local_src[tn.id] = 'mixed' if local_src.get(tn.id) not in (None, 'loopvar') else 'loopvar'
        for n in ast.walk(fn):
            if isinstance(n, (ast.Import, ast.ImportFrom)):
                continue
            if isinstance(n, (ast.Lambda,)):
                pass
            if isinstance(n, ast.Call):
                f = n.func
                if isinstance(f, ast.Name):
                    if f.id in ('getattr', 'hasattr', 'setattr', 'delattr'):
                        r = recv_class(n.args[0], modules) if n.args else 'unclassified'
                        na = n.args[1] if len(n.args) > 1 else None
                        if na is None:
                            nc = 'dynamic'
                        elif isinstance(na, ast.Name) and na.id in local_name_class:
                            nc = local_name_class[na.id]
                        else:
                            nc = name_arg_class(na)
                        caps.append((f.id, where, r, nc))
                    elif f.id in local_src:
                        caps.append(('call_local', where, f.id, local_src[f.id]))
                    else:
                        caps.append(('call_global', where, f.id, ''))
                elif isinstance(f, ast.Attribute):
                    r = recv_class(f.value, modules)
                    if r == 'self' or r.startswith('self.') or r == 'cls':
                        caps.append(('call_self', where, r, f.attr))
                    elif r.startswith('module:'):
                        caps.append(('call_module', where, r[7:], f.attr))
                    elif r in ('value', 'const'):
                        if f.attr in MUTATORS:
                            # in-place mutation of a value: only safe on containers the function created itself,
                            # so these sites are keyed by their enclosing function
                            caps.append(('mutator_call', where, f.attr, ast.unparse(f.value)[:40]))
                        else:
                            caps.append(('call_value_attr', where, f.attr, ''))
                    else:
                        caps.append(('unclassified', where, 'call receiver', ast.dump(f)[:60]))
                else:
                    # calling the result of an expression, e.g. getattr(self, m)(node) or func(*args)
                    caps.append(('call_expr', where, type(f).__name__, ast.dump(f)[:50]))
            elif isinstance(n, ast.Attribute) and not isinstance(n.ctx, ast.Store):
                # attribute READ on a value receiver that is not the func of a call: data field access
                r = recv_class(n.value, modules)
                if r in ('value',) and n.attr.startswith('__'):
                    caps.append(('dunder_attr', where, n.attr, ''))

    for node in tree.body:
        if isinstance(node, ast.ClassDef):
            for item in node.body:
                if isinstance(item, ast.FunctionDef):
                    if item.name.startswith('_eval_') and hasattr(ast, item.name[len('_eval_'):]):
                        handled.append((node.name, item.name[len('_eval_'):]))
                    walk_fn(item, f'{node.name}.{item.name}')
                elif isinstance(item, (ast.Assign, ast.AnnAssign)):
                    tgt = item.targets[0] if isinstance(item, ast.Assign) else item.target
                    if isinstance(tgt, ast.Name) and tgt.id == '_FUNCTION_NAMES' and isinstance(item.value, ast.Set):
                        fn_names += [e.value for e in item.value.elts if isinstance(e, ast.Constant)]
        elif isinstance(node, ast.FunctionDef):
            walk_fn(node, node.name)
        elif isinstance(node, (ast.Import, ast.ImportFrom, ast.Assign, ast.AnnAssign, ast.Expr)):
            for n in ast.walk(node):
                if isinstance(n, ast.Call):
                    caps.append(('call_toplevel', '<module>', ast.dump(n.func)[:60], ''))
        else:
            caps.append(('unclassified', '<module>', type(node).__name__, ''))

    # string-method names special-cased by TransactionEvaluator._eval_Call (method_name == '...')
    for node in ast.walk(tree):
        if isinstance(node, ast.Compare) and isinstance(node.left, ast.Name) and node.left.id == 'method_name' \
                and len(node.ops) == 1 and isinstance(node.ops[0], ast.Eq) and isinstance(node.comparators[0], ast.Constant):
            str_methods.append(node.comparators[0].value)
    for kind in ('exec', 'eval'):
        pass
    defined = [n.name for n in tree.body if isinstance(n, (ast.FunctionDef, ast.ClassDef))]
    return {'defined': defined, 'imports': sorted(set(imports)), 'allowed': allowed, 'handled': handled, 'caps': caps,
            'function_names': sorted(fn_names), 'str_methods': str_methods}


def render(d):
    out = ['(* GENERATED by tools/c03_caps.py from src/tally/expr_parser.py — do not edit *)',
           'From Coq Require Import String List.', 'Import ListNotations.', 'Open Scope string_scope.', '',
           'Module C03Caps.', '',
           'Definition imports : list string := ' + coq_list(coq_string(x) for x in d['imports']) + '.', '',
           'Definition defined_names : list string := ' + coq_list(coq_string(x) for x in d['defined']) + '.', '',
           'Definition allowed_nodes : list string := ' + coq_list(coq_string(x) for x in d['allowed']) + '.', '',
           'Definition handled_nodes : list (string * string) := '
           + coq_list(f'({coq_string(a)}, {coq_string(b)})' for a, b in d['handled']) + '.', '',
           'Definition function_names : list string := ' + coq_list(coq_string(x) for x in d['function_names']) + '.', '',
           'Definition str_methods : list string := ' + coq_list(coq_string(x) for x in d['str_methods']) + '.', '',
           '(* (kind, enclosing function, a, b) *)',
           'Definition caps : list (string * string * string * string) := [']
    seen, rows = set(), []
    for c in d['caps']:
        key = (c[0], c[2], c[3]) if c[0] not in ('getattr', 'hasattr', 'setattr', 'delattr', 'unclassified', 'call_expr', 'mutator_call', 'mutable_default') else c
        if key in seen:
            continue
        seen.add(key)
        rows.append('  (' + ', '.join(coq_string(x) for x in c) + ')')
    out.append(';\n'.join(rows))
    out += ['].', '', 'End C03Caps.', '']
    return '\n'.join(out)


if __name__ == '__main__':
    print(render(extract(sys.argv[1])))
