#!/usr/bin/env python3
"""C20 — fail-closed static extractor of every write-capable call site of tally.

Walks ALL of <repo>/src/tally/**/*.py with `ast` (never imports or runs the code) and lists

* every *write-capable call site*: open()/X.open() with a mode containing w/a/x/+ (or a mode that is not a
  string constant), Path.write_text/write_bytes/touch/mkdir/unlink/rename/replace/rmdir/symlink_to/…,
  shutil.move/copy*/rmtree/…, os.makedirs/mkdir/rename/replace/remove/unlink/rmdir/truncate/…, tempfile
  writers, zip/tar extraction, subprocess / os.system / os.exec* / os.spawn*, and dynamic escapes
  (eval/exec/__import__/importlib/getattr on os|shutil|subprocess|tempfile) — with file, enclosing function,
  kind, mode (when syntactically evident) and the chain of enclosing `if`/`elif`/`else` tests (the *guards*);
* the call sites of the two migration routines with their guards, and every assignment to a variable that
  such a guard tests (so `should_migrate = migrate` is part of the checked table);
* a static, name-based, over-approximating call graph: function F refers to function G when G's simple name
  occurs in F's body as a Name or as an attribute name; per command the set of functions reachable from
  its handler (module-level code of every file is a root of every command).

The result is rendered as coq/theories/Gen/C20WriteSites.v (records, no line numbers inside the records so
that unrelated edits do not disturb the obligations; line numbers are in comments).

Fail closed: a file that does not parse, a `from os import *`, or an open() whose mode is not a constant
are reported (the latter as a write site with mode "?").
"""
import ast
import os
import sys

WRITER_MODULES = {'os', 'shutil', 'subprocess', 'tempfile', 'pathlib', 'io', 'zipfile', 'tarfile', 'codecs',
                  'gzip', 'bz2', 'lzma', 'importlib', 'webbrowser', 'sqlite3', 'pickle', 'shelve', 'fileinput'}

# attribute / function names that write whatever the receiver is
ALWAYS = {
    'write_text': 'path.write_text', 'write_bytes': 'path.write_bytes', 'touch': 'path.touch',
    'mkdir': 'mkdir', 'makedirs': 'makedirs', 'unlink': 'unlink', 'rmdir': 'rmdir', 'removedirs': 'removedirs',
    'rename': 'rename', 'renames': 'renames', 'symlink_to': 'symlink', 'hardlink_to': 'link', 'link_to': 'link',
    'symlink': 'symlink', 'link': 'link', 'truncate': 'truncate', 'ftruncate': 'truncate', 'chmod': 'chmod',
    'lchmod': 'chmod', 'chown': 'chown', 'utime': 'utime',
    'rmtree': 'shutil.rmtree', 'move': 'shutil.move', 'copy2': 'shutil.copy2', 'copyfile': 'shutil.copyfile',
    'copytree': 'shutil.copytree', 'copymode': 'shutil.copymode', 'copystat': 'shutil.copystat',
    'copyfileobj': 'shutil.copyfileobj', 'make_archive': 'shutil.make_archive', 'unpack_archive': 'shutil.unpack_archive',
    'extractall': 'archive.extractall', 'extract': 'archive.extract',
    'mkstemp': 'tempfile.mkstemp', 'mkdtemp': 'tempfile.mkdtemp', 'NamedTemporaryFile': 'tempfile.NamedTemporaryFile',
    'TemporaryFile': 'tempfile.TemporaryFile', 'TemporaryDirectory': 'tempfile.TemporaryDirectory',
    'SpooledTemporaryFile': 'tempfile.SpooledTemporaryFile',
    'system': 'os.system', 'popen': 'os.popen', 'Popen': 'subprocess.Popen', 'check_call': 'subprocess.check_call',
    'check_output': 'subprocess.check_output', 'getoutput': 'subprocess.getoutput',
    'getstatusoutput': 'subprocess.getstatusoutput', 'startfile': 'os.startfile',
    'execv': 'os.exec', 'execve': 'os.exec', 'execvp': 'os.exec', 'execvpe': 'os.exec', 'execl': 'os.exec',
    'execlp': 'os.exec', 'execle': 'os.exec', 'execlpe': 'os.exec', 'spawnv': 'os.spawn', 'spawnve': 'os.spawn',
    'spawnvp': 'os.spawn', 'spawnl': 'os.spawn', 'spawnlp': 'os.spawn', 'posix_spawn': 'os.spawn', 'fork': 'os.fork',
    'urlretrieve': 'urllib.urlretrieve', 'fdopen': 'os.fdopen', 'mkfifo': 'os.mkfifo', 'mknod': 'os.mknod',
}
# names that write only when the receiver is one of the writer modules (the same method names exist on
# str / list / dict): receiver-sensitive, resolved through the import table
MODULE_ONLY = {
    'remove': 'os.remove', 'replace': 'os.replace', 'copy': 'shutil.copy', 'run': 'subprocess.run',
    'call': 'subprocess.call', 'open': 'open', 'write': 'os.write', 'import_module': 'dynamic.import',
}
DYNAMIC_BUILTINS = {'eval': 'dynamic.eval', 'exec': 'dynamic.exec', '__import__': 'dynamic.import',
                    'compile': 'dynamic.compile'}
# routines that write where their caller tells them to: their call sites (guards + where the arguments come from) are tabled too
MIGRATION_ROUTINES = {'_migrate_csv_to_rules', 'migrate_v0_to_v1', 'run_migrations', 'init_config', 'write_summary_file_vue',
                      'write_default_sections', 'download_file', 'perform_update'}


class ExtractionError(Exception):
    pass


def _const_str(node):
    return node.value if isinstance(node, ast.Constant) and isinstance(node.value, str) else None


def _root_name(node):
    while isinstance(node, ast.Attribute):
        node = node.value
    return node.id if isinstance(node, ast.Name) else None


class FileScan(ast.NodeVisitor):
    def __init__(self, rel, tree):
        self.rel = rel
        self.scope = []            # enclosing def/class names
        self.guards = []           # enclosing if tests (unparsed)
        self.mod_alias = {}        # local name -> module name (import os as o)
        self.name_alias = {}       # local name -> (module, original) (from os import remove as rm)
        self.sites = []
        self.calls = []            # migration routine call sites
        self.assigns = []          # (function, var, rhs)
        self.funcs = {}            # qualified function -> set of referenced simple names
        self.problems = []
        self.branch = None         # inside cli.main: the `args.command == '<x>'` dispatch branch being visited
        self.visit(tree)

    # ---- scopes ------------------------------------------------------------------------------
    def fn(self):
        names = [n for k, n in self.scope if k == 'def'] if any(k == 'def' for k, _ in self.scope) else []
        if not names:
            return '<module>'
        cls = [n for k, n in self.scope if k == 'class']
        q = '.'.join(cls + names)
        return q + '@' + self.branch if self.branch and q == 'main' else q

    def _enter(self, kind, node):
        self.scope.append((kind, node.name))
        saved = self.guards
        self.guards = []
        if kind == 'def':
            q = self.fn()
            self.funcs.setdefault(q, set())
            for d in node.decorator_list:
                self.visit(d)
        for ch in node.body:
            self.visit(ch)
        if kind == 'def':
            for a in ast.walk(node.args):
                if isinstance(a, (ast.Name, ast.Attribute, ast.Call)):
                    self.visit(a)
        self.guards = saved
        self.scope.pop()

    def visit_FunctionDef(self, node):
        self._enter('def', node)

    visit_AsyncFunctionDef = visit_FunctionDef

    def visit_ClassDef(self, node):
        self._enter('class', node)

    def visit_Lambda(self, node):
        self.generic_visit(node)

    # ---- imports -----------------------------------------------------------------------------
    def visit_Import(self, node):
        for a in node.names:
            top = a.name.split('.')[0]
            self.mod_alias[(a.asname or top)] = a.name if a.asname else top

    def visit_ImportFrom(self, node):
        mod = node.module or ''
        for a in node.names:
            if a.name == '*' and mod.split('.')[0] in WRITER_MODULES:
                self.problems.append(f'{self.rel}:{node.lineno}: star import from {mod}')
            self.name_alias[a.asname or a.name] = (mod, a.name)
            if mod.split('.')[0] in WRITER_MODULES and a.name in WRITER_MODULES:
                self.mod_alias[a.asname or a.name] = mod + '.' + a.name

    # ---- guards ------------------------------------------------------------------------------
    def _dispatch_branch(self, test):
        """`args.command == '<const>'` inside main() -> the command name"""
        if self.fn().split('@')[0] == 'main' and isinstance(test, ast.Compare) and len(test.ops) == 1 and \
                isinstance(test.ops[0], ast.Eq) and ast.unparse(test.left) == 'args.command':
            return _const_str(test.comparators[0])
        return None

    def visit_If(self, node):
        t = ast.unparse(node.test)
        self.visit(node.test)
        br = self._dispatch_branch(node.test)
        self.guards.append(t)
        saved_branch = self.branch
        if br is not None:
            self.branch = br
            self.funcs.setdefault(self.fn(), set())
        for ch in node.body:
            self.visit(ch)
        self.branch = saved_branch
        self.guards.pop()
        self.guards.append('not (' + t + ')')
        for ch in node.orelse:
            self.visit(ch)
        self.guards.pop()

    def visit_Try(self, node):
        caught = ', '.join(ast.unparse(h.type) if h.type is not None else 'BaseException' for h in node.handlers) or 'finally'
        self.guards.append('try: except ' + caught)
        for ch in node.body:
            self.visit(ch)
        self.guards.pop()
        for h in node.handlers:
            self.guards.append('except ' + (ast.unparse(h.type) if h.type is not None else 'BaseException'))
            for ch in h.body:
                self.visit(ch)
            self.guards.pop()
        for ch in node.orelse + node.finalbody:
            self.visit(ch)

    visit_TryStar = visit_Try

    def visit_IfExp(self, node):
        self.generic_visit(node)

    # ---- assignments to (potential) guard variables -------------------------------------------
    def visit_Assign(self, node):
        for tg in node.targets:
            if isinstance(tg, ast.Name):
                self.assigns.append((self.fn(), tg.id, ast.unparse(node.value)))
        self.generic_visit(node)

    def visit_AugAssign(self, node):
        if isinstance(node.target, ast.Name):
            self.assigns.append((self.fn(), node.target.id, ast.unparse(node.op.__class__()) if False else
                                 'aug:' + ast.unparse(node.value)))
        self.generic_visit(node)

    # ---- references (call graph) -------------------------------------------------------------
    def _ref(self, name):
        self.funcs.setdefault(self.fn(), set()).add(name)

    def visit_Name(self, node):
        self._ref(node.id)

    def visit_Attribute(self, node):
        self._ref(node.attr)
        self.generic_visit(node)

    # ---- calls -------------------------------------------------------------------------------
    def _module_of(self, recv):
        """module the receiver expression denotes (through the import table), or None"""
        if isinstance(recv, ast.Name):
            return self.mod_alias.get(recv.id)
        if isinstance(recv, ast.Attribute):
            root = _root_name(recv)
            if root in self.mod_alias:
                return self.mod_alias[root] + '.' + recv.attr
        return None

    def _open_mode(self, node, os_open=False):
        mode = None
        if len(node.args) >= 2:
            mode = node.args[1]
        for kw in node.keywords:
            if kw.arg in ('mode', 'flags'):
                mode = kw.value
            if kw.arg is None:
                return '?'
        if mode is None:
            return 'r'
        if os_open:
            return '?flags:' + ast.unparse(mode)
        s = _const_str(mode)
        return s if s is not None else '?'

    PATH_METHOD_KINDS = ('path.', 'mkdir', 'unlink', 'rmdir', 'rename', 'symlink', 'link', 'chmod', 'truncate', 'archive.')

    def _site(self, node, kind, mode=''):
        # WHERE the call writes: the path argument(s); for Path methods the receiver (and the argument)
        exprs = []
        f = node.func
        recv_is_module = isinstance(f, ast.Attribute) and self._module_of(f.value) is not None
        recv_only = False
        if isinstance(f, ast.Attribute) and not recv_is_module and (kind.startswith(self.PATH_METHOD_KINDS) or kind == 'open'):
            exprs.append(f.value)
            # Path.write_text(content) / touch() / mkdir(mode) / chmod(mode) ...: the argument is not a path
            recv_only = kind not in ('rename', 'renames', 'path.replace', 'symlink', 'link', 'archive.extractall', 'archive.extract')
        two = kind in ('shutil.move', 'shutil.copy', 'shutil.copy2', 'shutil.copyfile', 'shutil.copytree', 'os.replace',
                       'rename', 'renames', 'symlink', 'link')
        if not recv_only:
            exprs += list(node.args[:2 if two else 1])
        if kind.startswith(('subprocess.', 'os.system', 'os.popen', 'os.exec', 'os.spawn', 'dynamic.')):
            exprs = list(node.args[:1])
        self.sites.append({'file': self.rel, 'func': self.fn(), 'kind': kind, 'mode': mode,
                           'guards': list(self.guards), 'line': node.lineno,
                           'targets': [ast.unparse(e) for e in exprs],
                           'target_names': sorted({n.id for e in exprs for n in ast.walk(e) if isinstance(n, ast.Name)}),
                           'src': ast.unparse(node)[:100]})

    def visit_Call(self, node):
        f = node.func
        name, recv = None, None
        if isinstance(f, ast.Name):
            name = f.id
            if name in self.name_alias and self.name_alias[name][0].split('.')[0] in WRITER_MODULES:
                mod, orig = self.name_alias[name]
                recv_mod = mod
                name = orig
            else:
                recv_mod = None
            bare = True
        elif isinstance(f, ast.Attribute):
            name, recv = f.attr, f.value
            recv_mod = self._module_of(recv)
            bare = False
        else:
            self.generic_visit(node)
            return
        top = (recv_mod or '').split('.')[0]
        if recv_mod and top not in WRITER_MODULES:
            # the receiver is an imported module that cannot write files (platform.system(), re.compile(), ...)
            self.generic_visit(node)
            return

        if name == 'open' and (bare and recv_mod is None or not bare or recv_mod):
            if top == 'os':
                self._site(node, 'os.open', self._open_mode(node, os_open=True))
            elif top in ('webbrowser',):
                self._site(node, 'webbrowser.open', '')
            else:
                # builtin open / io.open / codecs.open / Path.open / zipfile member open ...
                if not bare and recv_mod is None and len(node.args) >= 1 and _const_str(node.args[0]) is not None:
                    mode = _const_str(node.args[0])       # Path(...).open('w'): mode is the first argument
                    for kw in node.keywords:
                        if kw.arg == 'mode':
                            mode = _const_str(kw.value) or '?'
                elif not bare and recv_mod is None and not node.args:
                    mode = 'r'
                    for kw in node.keywords:
                        if kw.arg == 'mode':
                            mode = _const_str(kw.value) or '?'
                else:
                    mode = self._open_mode(node)
                if mode == '?' or any(c in mode for c in 'wax+'):
                    self._site(node, 'open', mode)
        elif name in DYNAMIC_BUILTINS and bare and recv_mod is None:
            self._site(node, DYNAMIC_BUILTINS[name], '')
        elif name == 'getattr' and bare and node.args and isinstance(node.args[0], ast.Name) and \
                self.mod_alias.get(node.args[0].id, '').split('.')[0] in WRITER_MODULES:
            self._site(node, 'dynamic.getattr', '')
        elif name in ALWAYS and (not bare or recv_mod):
            self._site(node, ALWAYS[name], '')
        elif name in ALWAYS and bare and name in ('NamedTemporaryFile', 'TemporaryDirectory', 'TemporaryFile',
                                                  'mkstemp', 'mkdtemp', 'rmtree', 'makedirs', 'Popen'):
            self._site(node, ALWAYS[name], '')      # unmistakable names even when we lost the import
        elif name in MODULE_ONLY and name != 'open':
            if top in WRITER_MODULES and not (top == 'os' and name in ('write',) and False):
                self._site(node, MODULE_ONLY[name], '')
            elif name == 'replace' and not bare and recv_mod is None and len(node.args) == 1 and not node.keywords:
                self._site(node, 'path.replace', '')      # Path.replace(target); str.replace needs 2 arguments
            elif name == 'copy' and not bare and recv_mod is None and len(node.args) >= 2:
                self._site(node, 'shutil.copy', '')
        if name in MIGRATION_ROUTINES:
            # only the arguments that say WHERE the routine writes
            idx = {'write_summary_file_vue': [1], '_migrate_csv_to_rules': [0, 1], 'migrate_v0_to_v1': [0], 'run_migrations': [0],
                   'init_config': [0], 'write_default_sections': [0], 'download_file': [1], 'perform_update': []}[name]
            argx = [a for i, a in enumerate(node.args) if i in idx] + \
                   [kw.value for kw in node.keywords if kw.arg in ('filepath', 'csv_file', 'config_dir', 'target_dir',
                                                                   'old_config_dir', 'dest_path')]
            self.calls.append({'file': self.rel, 'func': self.fn(), 'callee': name, 'guards': list(self.guards),
                               'line': node.lineno, 'targets': [ast.unparse(e) for e in argx],
                               'target_names': sorted({n.id for e in argx for n in ast.walk(e) if isinstance(n, ast.Name)})})
        self.generic_visit(node)


def scan_tree(src_root):
    """src_root = <repo>/src/tally. Returns dict(sites, calls, assigns, funcs, problems, files)."""
    out = {'sites': [], 'calls': [], 'assigns': [], 'funcs': {}, 'problems': [], 'files': []}
    if not os.path.isdir(src_root):
        raise ExtractionError(f'no source tree at {src_root}')
    for dp, dn, fs in sorted(os.walk(src_root)):
        dn.sort()
        for f in sorted(fs):
            if not f.endswith('.py'):
                continue
            p = os.path.join(dp, f)
            rel = os.path.relpath(p, src_root)
            out['files'].append(rel)
            try:
                tree = ast.parse(open(p, encoding='utf-8').read(), filename=p)
            except (SyntaxError, UnicodeDecodeError, OSError) as e:
                out['problems'].append(f'{rel}: does not parse: {e}')
                continue
            sc = FileScan(rel, tree)
            out['sites'] += sc.sites
            out['calls'] += sc.calls
            out['assigns'] += [(rel,) + a for a in sc.assigns]
            out['problems'] += sc.problems
            for q, refs in sc.funcs.items():
                out['funcs'][rel + ':' + q] = refs
    if not out['files']:
        raise ExtractionError(f'no python files under {src_root}')
    return out


COMMAND_ROOTS = {
    'up': 'commands/run.py:cmd_run', 'run': 'commands/run.py:cmd_run', 'explain': 'commands/explain.py:cmd_explain',
    'discover': 'commands/discover.py:cmd_discover', 'diag': 'commands/diag.py:cmd_diag',
    'inspect': 'commands/inspect.py:cmd_inspect', 'init': 'commands/init.py:cmd_init',
    'workflow': 'commands/workflow.py:cmd_workflow', 'update': 'commands/update.py:cmd_update',
    'reference': 'commands/reference.py:cmd_reference',
}


def reachability(scan):
    """name-based over-approximation: F -> G whenever G's simple name is referenced in F."""
    funcs = scan['funcs']
    by_simple = {}
    for q in funcs:
        by_simple.setdefault(q.split(':', 1)[1].split('.')[-1], []).append(q)
        # a class name reaches its methods through attribute references; instantiation = reference to the class
    class_methods = {}
    for q in funcs:
        parts = q.split(':', 1)[1].split('.')
        for c in parts[:-1]:
            class_methods.setdefault(c, []).append(q)
    modules = [q for q in funcs if q.endswith(':<module>')]
    reach = {}
    missing = []
    for cmd, root in COMMAND_ROOTS.items():
        if root not in funcs:
            missing.append(f'command handler {root} not found')
            reach[cmd] = []
            continue
        branch = 'cli.py:main@' + cmd
        if branch not in funcs or 'cli.py:main' not in funcs:
            missing.append(f'dispatch branch for command {cmd!r} not found in cli.main')
            reach[cmd] = []
            continue
        # roots: the handler, the dispatch branch of cli.main for this command, the common part of cli.main,
        # and the module-level code of every file (executed on import)
        seen, todo = set(), [root, branch, 'cli.py:main'] + modules
        while todo:
            q = todo.pop()
            if q in seen:
                continue
            seen.add(q)
            for name in funcs.get(q, ()):
                for g in by_simple.get(name, []):
                    # module-level code merely *defines/imports* other functions: a Name at module level that is
                    # not inside a call is still counted (over-approximation) except the `def` itself
                    if g not in seen:
                        todo.append(g)
                if name in class_methods and name[:1].isupper():
                    for g in class_methods[name]:
                        # implicit protocol methods (constructors, context managers, operators, __del__ ...)
                        if g.split(':', 1)[1].split('.')[-1].startswith('__') and g not in seen:
                            todo.append(g)
        reach[cmd] = sorted(seen)
    return reach, missing


def target_slice(scan, site, cap=40):
    """the path expressions of a write site followed by every assignment `name = rhs` (source order) in the enclosing
    function to a name they mention, transitively: a change of WHERE a file is written changes this list"""
    per_fn = [(v, rhs) for rel, fn, v, rhs in scan['assigns'] if rel == site['file'] and fn == site['func']]
    assigned = {v for v, _ in per_fn}
    names, todo = set(), [n for n in site['target_names'] if n in assigned]
    while todo:
        n = todo.pop()
        if n in names:
            continue
        names.add(n)
        for v, rhs in per_fn:
            if v == n:
                try:
                    for m in ast.walk(ast.parse(rhs.split('aug:', 1)[-1], mode='eval')):
                        if isinstance(m, ast.Name) and m.id in assigned and m.id not in names:
                            todo.append(m.id)
                except SyntaxError:
                    pass
    defs = [f'{v} = {rhs}' for v, rhs in per_fn if v in names]
    if len(defs) > cap:
        defs = defs[:cap] + [f'... {len(defs) - cap} more']
    return list(site['targets']) + defs


def cstr(s):
    return '"' + s.replace('"', '""') + '"'


def clist(xs):
    return '[' + '; '.join(xs) + ']'


def render(scan, reach):
    guard_vars = set()
    for c in scan['calls']:
        if c['callee'] in ('_migrate_csv_to_rules', 'migrate_v0_to_v1'):
            for g in c['guards']:
                try:
                    for n in ast.walk(ast.parse(g, mode='eval')):
                        if isinstance(n, ast.Name):
                            guard_vars.add((c['file'], c['func'], n.id))
                except SyntaxError:
                    pass
    gdefs = {}
    for rel, fn, var, rhs in scan['assigns']:
        if (rel, fn, var) in guard_vars:
            gdefs.setdefault((rel, fn, var), []).append(rhs)
    writer_funcs = sorted({s['file'] + ':' + s['func'] for s in scan['sites']})
    L = []
    L.append('(* GENERATED by tools/c20_write_sites.py from <repo>/src/tally/**/*.py — do not edit.')
    L.append('   Every write-capable call site of tally, the guarded call sites of the migration routines, the')
    L.append('   assignments to their guard variables, and the per-command reachable writer functions')
    L.append('   (name-based over-approximating call graph). *)')
    L.append('From Coq Require Import String List.')
    L.append('Import ListNotations.')
    L.append('Open Scope string_scope.')
    L.append('')
    L.append('Record wsite := { ws_file : string; ws_func : string; ws_kind : string; ws_mode : string;')
    L.append('                  ws_guards : list string; ws_target : list string }.')
    L.append('Record mcall := { mc_file : string; mc_func : string; mc_callee : string; mc_guards : list string;')
    L.append('                  mc_args : list string }.')
    L.append('')
    L.append(f'Definition scanned_files : list string := {clist(cstr(f) for f in scan["files"])}.')
    L.append('')
    L.append('Definition write_sites : list wsite := [')
    rows = []
    for s in scan['sites']:
        rows.append(f'  (* {s["file"]}:{s["line"]}  {s["src"].replace("*)", "* )").replace("(*", "( *")} *)\n'
                    f'  {{| ws_file := {cstr(s["file"])}; ws_func := {cstr(s["func"])}; ws_kind := {cstr(s["kind"])}; '
                    f'ws_mode := {cstr(s["mode"])};\n     ws_guards := {clist(cstr(g) for g in s["guards"])};\n'
                    f'     ws_target := {clist(cstr(t) for t in target_slice(scan, s))} |}}')
    L.append(';\n'.join(rows))
    L.append('].')
    L.append('')
    L.append('Definition migration_calls : list mcall := [')
    L.append(';\n'.join(f'  (* {c["file"]}:{c["line"]} *) {{| mc_file := {cstr(c["file"])}; mc_func := {cstr(c["func"])}; '
                        f'mc_callee := {cstr(c["callee"])}; mc_guards := {clist(cstr(g) for g in c["guards"])};\n'
                        f'     mc_args := {clist(cstr(t) for t in target_slice(scan, c))} |}}'
                        for c in scan['calls']))
    L.append('].')
    L.append('')
    L.append('(* every assignment (right-hand sides, in source order) to a variable tested by a guard of a migration call *)')
    L.append('Definition guard_defs : list (string * string * string * list string) := [')
    L.append(';\n'.join(f'  ({cstr(k[0])}, {cstr(k[1])}, {cstr(k[2])}, {clist(cstr(r) for r in v)})'
                        for k, v in sorted(gdefs.items())))
    L.append('].')
    L.append('')
    L.append('(* per command: the functions containing a write site that are reachable from its handler *)')
    L.append('Definition reach_writers : list (string * list string) := [')
    L.append(';\n'.join(f'  ({cstr(cmd)}, {clist(cstr(q) for q in fs if q in writer_funcs)})'
                        for cmd, fs in sorted(reach.items())))
    L.append('].')
    L.append('')
    L.append('(* size of the reachable set per command (information only) *)')
    L.append('Definition reach_sizes : list (string * nat) := ' +
             clist(f'({cstr(cmd)}, {len(fs)})' for cmd, fs in sorted(reach.items())) + '.')
    L.append('')
    return '\n'.join(L)


def extract(src_root):
    """Returns (coq_text, info). Raises ExtractionError when the tree cannot be scanned reliably."""
    scan = scan_tree(src_root)
    reach, missing = reachability(scan)
    problems = scan['problems'] + missing
    if problems:
        raise ExtractionError('; '.join(problems))
    info = {'files': len(scan['files']), 'functions': len(scan['funcs']), 'write_sites': len(scan['sites']),
            'migration_calls': len(scan['calls']),
            'reach_sizes': {k: len(v) for k, v in reach.items()},
            'sites': [dict({k: s[k] for k in ('file', 'func', 'kind', 'mode', 'line', 'guards')}, target=target_slice(scan, s)) for s in scan['sites']]}
    return render(scan, reach), info


if __name__ == '__main__':
    root = sys.argv[1] if len(sys.argv) > 1 else '/repo/src/tally'
    text, info = extract(root)
    if '--coq' in sys.argv:
        print(text)
    else:
        import json
        print(json.dumps(info, indent=1))
