#!/usr/bin/env python3
"""Writes /verif/MANIFEST.json from the table below (kept in one place so it stays valid)."""
import json
import os

HERE = os.path.dirname(os.path.dirname(os.path.abspath(__file__)))
ALL = [f'C{i:02d}' for i in range(1, 21)]

CHECKS = {
    'C13': dict(
        category='proof',
        text='Both classification programs (classification.py, the classification block of spending_report.js) are translated '
             'to Gallina from /repo on every run and C13/Props.v proves them equal on every IEEE double and every tag list '
             '(and over any numeric structure). The translators are tied by a bit-exact node-vs-CPython differential and a '
             'vm_compute run of the translated model against the implementation.',
        design_ref='DESIGN.md §4 C13',
        note='Trusted: Coq kernel/vm_compute; tools/py2coq.py, tools/js2coq.py + node bundled acorn; the shared abstract '
             'numeric signature (Python float ops and JS number ops are the same IEEE-754 operations); str.lower vs '
             'toLowerCase agreement on ASCII images (swept every run). Browser rendering not modelled.',
        technique='Rocq proof over source-translated models + differential tie'),
    'C06': dict(
        category='proof',
        text='classification.py is translated to Gallina on every run; C06/Props.v proves, for all transaction lists, the '
             'one-bucket decision table, conservation of |amount| across the six totals, the cash-flow / net-transfer '
             'formulas, agreement of per-merchant / per-category / per-month sums and counts, and invariance under every '
             'permutation and every partition of the list. The hand model of the accumulation pass is tied to '
             'analyze_transactions by a vm_compute correspondence; the same laws are evaluated on implementation outputs.',
        design_ref='DESIGN.md §4 C06',
        note='Trusted: Coq kernel/vm_compute; tools/py2coq.py; harness/c06.py generators and comparison. Money is exact '
             '(integer ticks): float rounding of sums is outside the model; generated amounts are dyadic so the '
             'implementation is compared exactly. analyze_transactions fold is modelled by hand.',
        technique='Rocq proof (induction over the transaction list) + translated leaf code + correspondence'),
    'C03': dict(
        category='proof',
        text='A static confinement certificate is regenerated from expr_parser.py on every run (every import, builtin/global call, '
             'getattr/hasattr site with receiver and name class, attribute called on operand values, ALLOWED_NODES, _eval_ handlers, '
             'function and string-method tables) and C03/Props.v proves each capability lies inside the confined set and that '
             'validate_ast accepts a tree iff all its node classes, at any depth, are whitelisted. The implementation is then driven '
             'with an adversarial expression stream through every entry point (load, transaction and view evaluation, match/let/field/'
             'tag/transform/variable positions) under sys.addaudithook with deep type checks of values and texts and frame checks; the '
             'model validate verdict is compared with the loader inside Coq.',
        design_ref='DESIGN.md §4 C03',
        note='Trusted: Coq kernel/vm_compute; tools/c03_caps.py (syntactic classification of capability sites); the confined set '
             'C03/Caps.v is a human-reviewed whitelist; CPython ast.parse and audit events; re/difflib internals. Value-level '
             'confinement theorems over the evaluator model (coq/theories/Expr) are part of C04/C08; this check does not depend on them.',
        technique='Rocq proof over a source-extracted capability table + validate model + adversarial differential with audit hook'),
    'C08': dict(
        category='proof',
        text='The table of every expression-evaluation call site in src/tally (what its innermost try catches, what the handler does) '
             'and the evaluators own Exception->ExpressionError conversion are regenerated from /repo on every run; C08/Props.v proves '
             'that whatever exception class below Exception is raised at any node, no call site lets it escape and each site observes '
             'exactly "not applicable" (skip / None / not a member). That a skipped rule has no influence on the result is the engine-model '
             'theorem c01_false_rules_have_no_influence (C01). The implementation is driven with a catalogue of ill-typed expressions in '
             'every position (match, let, field, tag, variable, transform, view filter/variable, CSV parsing) and must (a) complete and '
             '(b) give the result obtained with exactly the failing rules/views deleted.',
        design_ref='DESIGN.md §4 C08',
        note='Trusted: Coq kernel/vm_compute; tools/c08_catch_sites.py (syntactic site finder); the modelled Python exception hierarchy '
             '(only the classes that matter); deletion oracle uses the implementation evaluator to decide which rules fail. Genuine '
             'defect found and repaired in /repo (fix: 58dcdc1) — before it, TypeError/AttributeError/StopIteration escaped match().',
        technique='Rocq proof over a source-extracted catch-site table + ill-typed differential with deletion oracle'),
}

PENDING = {}


def main():
    checks = []
    for pid in ALL:
        if pid not in CHECKS:
            continue
        c = CHECKS[pid]
        checks.append({
            'property_id': pid,
            'quick_cmd': f'./check {pid} quick',
            'thorough_cmd': f'./check {pid} thorough',
            'evidence_file': f'/verif/evidence/{pid}.json',
            'replay_cmd_template': f'./check {pid} --replay {{path}}',
            'engine': 'rocq-proof+tie',
            'level_claimed': {'category': c['category'], 'text': c['text'], 'design_ref': c['design_ref']},
            'level_note': c['note'],
            'technique': c['technique'],
        })
    na = [{'property_id': p, 'reason': PENDING.get(p, 'not claimed yet: model, theorems and tie for this property are not built at this commit (see DESIGN.md §8 build order)')}
          for p in ALL if p not in CHECKS]
    m = {
        'version': 1,
        'setup_cmd': './setup.sh',
        'hooks': {'guard': 'TALLY_VERIF', 'enable': 'no source hooks: checks import /repo/src/tally as is (PYTHONPATH=/repo/src)',
                  'baseline_off_cmd': 'cd /repo && /venv/bin/python -m pytest -ra -q -p no:cacheprovider --timeout=900 --continue-on-collection-errors',
                  'source_commits': [], 'add_only': True},
        'engines': [{'name': 'rocq-proof+tie', 'path': '/verif/check', 'serves_properties': sorted(CHECKS),
                     'kind_free_text': 'Coq 8.16 development under /verif/coq (models, theorems; Gen/*.v regenerated from /repo each run) + '
                                       'python harness (translators, model-vs-implementation correspondence via vm_compute, direct oracles, search)'}],
        'checks': checks,
        'notes': 'See DESIGN.md. known findings: /verif/known_findings.jsonl',
        'not_applicable': na,
    }
    with open(os.path.join(HERE, 'MANIFEST.json'), 'w') as f:
        json.dump(m, f, indent=1)
    print(f'{len(checks)} checks, {len(na)} not claimed')


main()
