#!/usr/bin/env python3
"""Writes /verif/MANIFEST.json from the table below (kept in one place so it stays valid)."""
import json
import os

HERE = os.path.dirname(os.path.dirname(os.path.abspath(__file__)))
ALL = [f'C{i:02d}' for i in range(1, 21)]

import sys as _sys
_sys.path.insert(0, os.path.join(HERE, 'tools'))
import load_checks
CHECKS = load_checks.load()

PENDING = {}


def main():
    checks = []
    for pid in ALL:
        if pid not in CHECKS:
            continue
        c = CHECKS[pid]
        checks.append({
            'property_id': pid,
            'quick_cmd': f'./check {pid} quick',
            'thorough_cmd': f'./check {pid} thorough',
            'evidence_file': f'/verif/evidence/{pid}.json',
            'replay_cmd_template': f'./check {pid} --replay {{path}}',
            'engine': 'rocq-proof+tie',
            'level_claimed': {'category': c['category'], 'text': c['text'], 'design_ref': c['design_ref']},
            'level_note': c['note'],
            'technique': c['technique'],
        })
    na = [{'property_id': p, 'reason': PENDING.get(p, 'not claimed yet: model, theorems and tie for this property are not built at this commit (see DESIGN.md §8 build order)')}
          for p in ALL if p not in CHECKS]
    m = {
        'version': 1,
        'setup_cmd': './setup.sh',
        'hooks': {'guard': 'TALLY_VERIF', 'enable': 'no source hooks: checks import /repo/src/tally as is (PYTHONPATH=/repo/src)',
                  'baseline_off_cmd': 'cd /repo && /venv/bin/python -m pytest -ra -q -p no:cacheprovider --timeout=900 --continue-on-collection-errors',
                  'source_commits': [], 'add_only': True},
        'engines': [{'name': 'rocq-proof+tie', 'path': '/verif/check', 'serves_properties': sorted(CHECKS),
                     'kind_free_text': 'Coq 8.16 development under /verif/coq (models, theorems; Gen/*.v regenerated from /repo each run) + '
                                       'python harness (translators, model-vs-implementation correspondence via vm_compute, direct oracles, search)'}],
        'checks': checks,
        'notes': 'See DESIGN.md. known findings: /verif/known_findings.jsonl',
        'not_applicable': na,
    }
    with open(os.path.join(HERE, 'MANIFEST.json'), 'w') as f:
        json.dump(m, f, indent=1)
    print(f'{len(checks)} checks, {len(na)} not claimed')


main()
