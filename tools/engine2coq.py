#!/usr/bin/env python3
"""Fail-closed translator (Python `ast` -> Gallina) for the three leaf functions of tally's rule engine
that the C01/C02/C09 model does not hand-write:

    merchant_engine.calculate_specificity, merchant_engine._extract_pattern_length   -> Gen/C09Specificity.v
    merchant_utils._is_expression_pattern                                           -> Gen/C01IsExpr.v

Accepted subset (anything else raises Untranslatable = broken tie):
  statements : docstring, `import re`, `name = expr`, `name += expr` (lists), `return expr`
  expressions: names, str/int constants, lists of str constants, tuples, `rule.match_expr`, `rule.priority`,
               x.lower(), x.count(y), x.startswith(<str>), len(x), <str> in x / y in x,
               sum(e for v in xs [if c]), bool(e), a or b or ..., calls of other translated functions,
               re.findall(<pattern literal in FINDALL>, x), re.match(<name bound to a keyword regex>, x)
A keyword regex is ^(kw|kw|...)\\s*TAIL with TAIL = \\( or a character class of literal characters; the
translator checks that no keyword is a prefix of another (so ordered alternation = any alternative).
"""
import ast
import re


class Untranslatable(Exception):
    pass


def cstr(s):
    for ch in s:
        if ord(ch) < 32 or ord(ch) > 126:
            raise Untranslatable(f'non-ASCII literal {s!r}')
    return '"' + s.replace('"', '""') + '"'


FINDALL = {'"([^"]*)"': '(findall_quoted """"%char', "'([^']*)'": '(findall_quoted "\'"%char'}


def parse_kw_regex(lit):
    m = re.fullmatch(r'\^\(([a-z|]+)\)\\s\*(\\\(|\[[^\]\\^-]+\])', lit)
    if not m:
        raise Untranslatable(f'regex literal not of the form ^(kw|...)\\s*TAIL: {lit!r}')
    kws = m.group(1).split('|')
    if any(not k for k in kws):
        raise Untranslatable(f'empty alternative in {lit!r}')
    for a in kws:
        for b in kws:
            if a != b and b.startswith(a):
                raise Untranslatable(f'keyword {a!r} is a prefix of {b!r}: ordered alternation would matter')
    tail = '(' if m.group(2) == '\\(' else m.group(2)[1:-1]
    return kws, tail


class Fn:
    def __init__(self, fn, known, params):
        self.fn, self.known, self.params = fn, known, params   # params: python name -> coq name
        self.env = dict(params)
        self.regex_names = {}
        self.n = 0

    def fail(self, node, why):
        raise Untranslatable(f'{self.fn.name}:{getattr(node, "lineno", "?")}: {why}: {ast.dump(node)[:160]}')

    def expr(self, e):
        if isinstance(e, ast.Constant):
            if isinstance(e.value, str):
                return cstr(e.value)
            if isinstance(e.value, int) and not isinstance(e.value, bool):
                return f'({e.value})%Z'
            self.fail(e, 'constant')
        if isinstance(e, ast.Name):
            if e.id in self.env:
                return self.env[e.id]
            self.fail(e, 'unknown name')
        if isinstance(e, ast.List):
            if all(isinstance(x, ast.Constant) and isinstance(x.value, str) for x in e.elts):
                return '[' + '; '.join(cstr(x.value) for x in e.elts) + ']'
            self.fail(e, 'list')
        if isinstance(e, ast.Tuple):
            return '(' + ', '.join(self.expr(x) for x in e.elts) + ')'
        if isinstance(e, ast.Attribute):
            if isinstance(e.value, ast.Name) and e.value.id == 'rule' and ('rule.' + e.attr) in self.env:
                return self.env['rule.' + e.attr]
            self.fail(e, 'attribute')
        if isinstance(e, ast.BoolOp) and isinstance(e.op, ast.Or):
            return '(' + ' || '.join(self.expr(x) for x in e.values) + ')%bool'
        if isinstance(e, ast.Compare):
            if len(e.ops) == 1 and isinstance(e.ops[0], ast.In):
                return f'(contains {self.expr(e.comparators[0])} {self.expr(e.left)})'
            self.fail(e, 'comparison')
        if isinstance(e, ast.Call):
            return self.call(e)
        self.fail(e, 'expression')

    def call(self, e):
        f = e.func
        if e.keywords:
            self.fail(e, 'keyword arguments')
        if isinstance(f, ast.Attribute):
            if isinstance(f.value, ast.Name) and f.value.id == 're':
                if f.attr == 'findall' and len(e.args) == 2 and isinstance(e.args[0], ast.Constant) \
                        and e.args[0].value in FINDALL:
                    return f'{FINDALL[e.args[0].value]} {self.expr(e.args[1])})'
                if f.attr == 'match' and len(e.args) == 2 and isinstance(e.args[0], ast.Name) \
                        and e.args[0].id in self.regex_names:
                    kws, tail = self.regex_names[e.args[0].id]
                    return (f'(kw_then [{"; ".join(cstr(k) for k in kws)}] {cstr(tail)} {self.expr(e.args[1])})')
                self.fail(e, 're call')
            if f.attr == 'lower' and not e.args:
                return f'(lower {self.expr(f.value)})'
            if f.attr == 'count' and len(e.args) == 1:
                return f'(count {self.expr(f.value)} {self.expr(e.args[0])})'
            if f.attr == 'startswith' and len(e.args) == 1 and isinstance(e.args[0], ast.Constant) \
                    and isinstance(e.args[0].value, str):
                return f'(sprefix {cstr(e.args[0].value)} {self.expr(f.value)})'
            self.fail(e, 'method call')
        if isinstance(f, ast.Name):
            if f.id == 'len' and len(e.args) == 1:
                return f'(ulen {self.expr(e.args[0])})'
            if f.id == 'bool' and len(e.args) == 1 and isinstance(e.args[0], ast.Call) and \
                    isinstance(e.args[0].func, ast.Attribute) and e.args[0].func.attr == 'match':
                return self.expr(e.args[0])       # bool(match object) = "matched"
            if f.id == 'sum' and len(e.args) == 1 and isinstance(e.args[0], ast.GeneratorExp):
                g = e.args[0]
                if len(g.generators) != 1 or g.generators[0].is_async or not isinstance(g.generators[0].target, ast.Name):
                    self.fail(e, 'generator')
                gen = g.generators[0]
                v = gen.target.id
                xs = self.expr(gen.iter)
                saved = dict(self.env)
                self.env[v] = v
                elt = self.expr(g.elt)
                conds = [self.expr(c) for c in gen.ifs]
                self.env = saved
                src = xs
                for c in conds:
                    src = f'(filter (fun {v} => {c}) {src})'
                return f'(sumZ (map (fun {v} => {elt}) {src}))'
            if f.id in self.known:
                return f'({self.known[f.id]} ' + ' '.join(self.expr(a) for a in e.args) + ')'
        self.fail(e, 'call')

    def body(self):
        lines = []
        stmts = list(self.fn.body)
        if stmts and isinstance(stmts[0], ast.Expr) and isinstance(stmts[0].value, ast.Constant) and \
                isinstance(stmts[0].value.value, str):
            stmts = stmts[1:]
        if not stmts or not isinstance(stmts[-1], ast.Return):
            self.fail(self.fn, 'function must end in a single return')
        for s in stmts[:-1]:
            if isinstance(s, ast.Import) and [a.name for a in s.names] == ['re']:
                continue
            if isinstance(s, ast.Assign) and len(s.targets) == 1 and isinstance(s.targets[0], ast.Name):
                name = s.targets[0].id
                if isinstance(s.value, ast.Constant) and isinstance(s.value.value, str) and s.value.value.startswith('^'):
                    self.regex_names[name] = parse_kw_regex(s.value.value)
                    continue
                rhs = self.expr(s.value)
            elif isinstance(s, ast.AugAssign) and isinstance(s.op, ast.Add) and isinstance(s.target, ast.Name) \
                    and s.target.id in self.env:
                name = s.target.id
                rhs = f'(List.app {self.env[name]} {self.expr(s.value)})'   # only list-valued names are augmented: a str here fails to type-check in Coq
            else:
                self.fail(s, 'statement')
            self.n += 1
            fresh = f'{name}_{self.n}' if name in self.env else name
            lines.append(f'  let {fresh} := {rhs} in   (* line {s.lineno} *)')
            self.env[name] = fresh
        lines.append(f'  {self.expr(stmts[-1].value)}.   (* line {stmts[-1].lineno} *)')
        return '\n'.join(lines)


def find_fn(mod, name):
    for n in mod.body:
        if isinstance(n, ast.FunctionDef) and n.name == name:
            return n
    raise Untranslatable(f'function {name} not found')


HEAD = '''(* GENERATED by tools/engine2coq.py from %s — do not edit; regenerated on every check run. *)
From Coq Require Import String Ascii List Bool ZArith.
From Tally Require Import Lib.Str Engine.StrLib.
Import ListNotations.
Open Scope string_scope.

'''


def translate_specificity(src_path):
    mod = ast.parse(open(src_path).read())
    f1 = find_fn(mod, '_extract_pattern_length')
    if [a.arg for a in f1.args.args] != ['match_expr']:
        raise Untranslatable('_extract_pattern_length: signature changed')
    t1 = Fn(f1, {}, {'match_expr': 'match_expr'})
    out = HEAD % 'merchant_engine.py (calculate_specificity, _extract_pattern_length)'
    out += 'Definition extract_pattern_length (match_expr : string) : Z :=\n' + t1.body() + '\n\n'
    f2 = find_fn(mod, 'calculate_specificity')
    if [a.arg for a in f2.args.args] != ['rule']:
        raise Untranslatable('calculate_specificity: signature changed')
    t2 = Fn(f2, {'_extract_pattern_length': 'extract_pattern_length'},
            {'rule.match_expr': 'rule_match_expr', 'rule.priority': 'rule_priority'})
    ret = f2.body[-1]
    if not (isinstance(ret, ast.Return) and isinstance(ret.value, ast.Tuple) and len(ret.value.elts) == 4):
        raise Untranslatable('calculate_specificity: does not return a 4-tuple')
    out += ('Definition calculate_specificity (rule_match_expr : string) (rule_priority : Z) : Z * Z * Z * Z :=\n'
            + t2.body() + '\n')
    return out


def translate_is_expr(src_path):
    mod = ast.parse(open(src_path).read())
    f = find_fn(mod, '_is_expression_pattern')
    if [a.arg for a in f.args.args] != ['pattern']:
        raise Untranslatable('_is_expression_pattern: signature changed')
    t = Fn(f, {}, {'pattern': 'pattern'})
    out = HEAD % 'merchant_utils.py (_is_expression_pattern)'
    out += 'Definition is_expression_pattern (pattern : string) : bool :=\n' + t.body() + '\n'
    return out


if __name__ == '__main__':
    import sys
    root = sys.argv[1] if len(sys.argv) > 1 else '/repo'
    print(translate_specificity(root + '/src/tally/merchant_engine.py'))
    print(translate_is_expr(root + '/src/tally/merchant_utils.py'))
