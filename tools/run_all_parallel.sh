#!/bin/bash
# run_all_parallel.sh [quick|thorough] [jobs] — like run_all.sh, but runs <jobs> checks at a time (default 3).
# Logs under .work/runall/<id>.log; one summary line per check on stdout (in completion order).
cd "$(dirname "$0")/.."
TIER=${1:-quick}
JOBS=${2:-3}
mkdir -p .work/runall
one() {
  id=$1; tier=$2
  start=$(date +%s)
  ./check $id $tier > .work/runall/$id.log 2>&1
  rc=$?
  end=$(date +%s)
  v=$(grep -c '^VIOLATION' .work/runall/$id.log)
  k=$(grep -c '^KNOWN-FINDING' .work/runall/$id.log)
  echo "$id rc=$rc violations=$v known=$k wall=$((end-start))s  $(grep '^\[' .work/runall/$id.log | tail -1)"
}
export -f one
python3 -c "import json; print('\n'.join(c['property_id'] for c in json.load(open('MANIFEST.json'))['checks']))" | xargs -P $JOBS -I{} bash -c "one {} $TIER"
