"""C19 extractor (fail closed): reads commands/discover.py with `ast` and renders, as Gallina data,
  * the `re.sub` pattern literals (+ replacement, IGNORECASE flag), prefix lists, joiner and word
    count of the description-cleaning code and of suggest_merchant_name;
  * which design the source has (`Orig`: the regex pattern is the contains() needle; `Fixed`: a
    suggest_needle function exists);
  * the normalised statement list (ast.unparse) of every function the model covers and of the
    statements of cmd_discover that emit a suggestion — a tripwire: any edit to that code changes
    this list, and C19/Proofs.v [source_is_modelled] demands equality with the lists the model was
    written against (C19/Source.v).
Anything unexpected (a non-literal pattern, an unknown flag, a second escape substitution, a
missing function) raises ExtractError."""
import ast
import os


class ExtractError(Exception):
    pass


def coq_str(s):
    b = s.encode('utf-8')
    if all(32 <= c < 127 or c == 10 for c in b):
        return '"' + s.replace('"', '""') + '"'
    raise ExtractError(f'non-printable text in source literal: {s!r}')


def _const_str(node, what):
    if isinstance(node, ast.Constant) and isinstance(node.value, str):
        return node.value
    raise ExtractError(f'{what}: expected a string literal, got {ast.dump(node)[:80]}')


def _resubs(fn):
    """All re.sub(...) calls of a function, in source order: (pattern, repl, ignorecase)."""
    out = []
    calls = [n for n in ast.walk(fn) if isinstance(n, ast.Call) and isinstance(n.func, ast.Attribute)
             and isinstance(n.func.value, ast.Name) and n.func.value.id == 're']
    calls.sort(key=lambda n: (n.lineno, n.col_offset))
    for c in calls:
        if c.func.attr != 'sub':
            raise ExtractError(f'{fn.name}: unexpected re.{c.func.attr} call (line {c.lineno})')
        if len(c.args) != 3:
            raise ExtractError(f'{fn.name}: re.sub with {len(c.args)} positional arguments (line {c.lineno})')
        pat = _const_str(c.args[0], f'{fn.name}: re.sub pattern (line {c.lineno})')
        repl = _const_str(c.args[1], f'{fn.name}: re.sub replacement (line {c.lineno})')
        ic = False
        for kw in c.keywords:
            if kw.arg == 'flags' and ast.unparse(kw.value) == 're.IGNORECASE':
                ic = True
            else:
                raise ExtractError(f'{fn.name}: unsupported re.sub keyword {ast.unparse(kw)} (line {c.lineno})')
        out.append((pat, repl, ic))
    return out


def _prefixes(fn):
    found = [n for n in ast.walk(fn) if isinstance(n, ast.Assign) and len(n.targets) == 1
             and isinstance(n.targets[0], ast.Name) and n.targets[0].id == 'prefixes']
    if len(found) != 1 or not isinstance(found[0].value, ast.List):
        raise ExtractError(f'{fn.name}: expected exactly one `prefixes = [...]` list literal')
    return [_const_str(e, f'{fn.name}: prefix') for e in found[0].value.elts]


def _take_and_joiner(fn):
    takes, joiners = [], []
    for n in ast.walk(fn):
        if isinstance(n, ast.Subscript) and isinstance(n.slice, ast.Slice):
            sl = n.slice
            if isinstance(n.value, ast.Call) and isinstance(n.value.func, ast.Attribute) and n.value.func.attr == 'split':
                if n.value.args or n.value.keywords or sl.lower is not None or sl.step is not None or \
                        not (isinstance(sl.upper, ast.Constant) and isinstance(sl.upper.value, int)):
                    raise ExtractError(f'{fn.name}: unsupported split()/slice form: {ast.unparse(n)}')
                takes.append(sl.upper.value)
        if isinstance(n, ast.Call) and isinstance(n.func, ast.Attribute) and n.func.attr == 'join' \
                and isinstance(n.func.value, ast.Constant):
            joiners.append(_const_str(n.func.value, f'{fn.name}: joiner'))
    return takes, joiners


def _body(fn):
    """Statements of a function without docstring and local imports, normalised by ast.unparse."""
    out = []
    for i, st in enumerate(fn.body):
        if i == 0 and isinstance(st, ast.Expr) and isinstance(st.value, ast.Constant) and isinstance(st.value.value, str):
            continue
        if isinstance(st, (ast.Import, ast.ImportFrom)):
            out.append(ast.unparse(st))
            continue
        out.append(ast.unparse(st))
    return out


def extract(path):
    src = open(path, encoding='utf-8').read()
    tree = ast.parse(src)
    fns = {n.name: n for n in tree.body if isinstance(n, ast.FunctionDef)}
    for need in ('cmd_discover', 'suggest_pattern', 'suggest_merchant_name', 'suggest_merchants_rule'):
        if need not in fns:
            raise ExtractError(f'function {need} not found in {path}')
    new = [n for n in ('clean_description', 'suggest_needle', 'quote_needle') if n in fns]
    if new and len(new) != 3:
        raise ExtractError(f'partial repaired design: only {new} present')
    fixed = bool(new)
    cleaner = fns['clean_description'] if fixed else fns['suggest_pattern']
    subs_all = _resubs(cleaner) + (_resubs(fns['suggest_pattern']) if fixed else [])
    subs = [s for s in subs_all if s[1] == '']
    esc = [s for s in subs_all if s[1] != '']
    if len(esc) != 1 or subs_all[-1] != esc[0] or esc[0][2]:
        raise ExtractError(f'expected exactly one escaping re.sub, last and without flags; got {esc}')
    takes, joiners = _take_and_joiner(fns['suggest_pattern'])
    if len(takes) != 1 or len(joiners) != 1:
        raise ExtractError(f'suggest_pattern: expected one split()[:n] and one literal.join, got {takes} {joiners}')
    msubs = _resubs(fns['suggest_merchant_name'])
    if any(s[1] != '' for s in msubs):
        raise ExtractError('suggest_merchant_name: re.sub with a non-empty replacement')
    mtakes, mjoiners = _take_and_joiner(fns['suggest_merchant_name'])
    if len(mtakes) != 1 or mjoiners != [' ']:
        raise ExtractError(f'suggest_merchant_name: unexpected split/join {mtakes} {mjoiners}')
    # statements of cmd_discover that emit a suggestion
    emit = []
    for n in ast.walk(fns['cmd_discover']):
        if isinstance(n, ast.Call) and isinstance(n.func, ast.Name) and n.func.id in (
                'suggest_merchants_rule', 'suggest_pattern', 'suggest_merchant_name', 'suggest_needle', 'quote_needle'):
            emit.append((n.lineno, n.col_offset, ast.unparse(n)))
        if isinstance(n, ast.Expr) and isinstance(n.value, ast.Call) and isinstance(n.value.func, ast.Name) \
                and n.value.func.id == 'print' and 'match:' in ast.unparse(n):
            emit.append((n.lineno, -1, ast.unparse(n)))
    emit = [e[2] for e in sorted(emit)]
    text = {name: _body(fns[name]) for name in ['suggest_pattern', 'suggest_merchant_name', 'suggest_merchants_rule'] + new}
    text['cmd_discover.emit'] = emit
    return {'fixed': fixed, 'pattern_subs': subs, 'pattern_escape': esc[0][:2], 'pattern_prefixes': _prefixes(cleaner),
            'pattern_joiner': joiners[0], 'pattern_take': takes[0], 'merchant_subs': msubs,
            'merchant_prefixes': _prefixes(fns['suggest_merchant_name']), 'merchant_take': mtakes[0], 'text': text}


def _subs(l):
    return '[' + '; '.join(f'({coq_str(p)}, {coq_str(r)}, {"true" if ic else "false"})' for p, r, ic in l) + ']'


def _strs(l, sep='; '):
    return '[' + sep.join(coq_str(x) for x in l) + ']'


def render_text(text, name):
    """The statement lists as one Gallina association list (function name |-> statements)."""
    rows = []
    for k in sorted(text):
        rows.append(f'  ({coq_str(k)},\n   ' + _strs(text[k], ';\n    ') + ')')
    return f'Definition {name} : list (string * list string) := [\n' + ';\n'.join(rows) + '\n].\n'


def render(info, source_rel='src/tally/commands/discover.py'):
    out = [f'(* GENERATED by tools/c19_patterns.py from {source_rel} — do not edit. *)',
           'From Coq Require Import String List Bool.', 'From Tally Require Import C19.Model.',
           'Import ListNotations.', 'Open Scope string_scope.', 'Module C19Src.',
           f'Definition variant_of_source : variant := {"Fixed" if info["fixed"] else "Orig"}.',
           f'Definition pattern_subs : list sub_spec := {_subs(info["pattern_subs"])}.',
           f'Definition pattern_escape : string * string := ({coq_str(info["pattern_escape"][0])}, {coq_str(info["pattern_escape"][1])}).',
           f'Definition pattern_prefixes : list string := {_strs(info["pattern_prefixes"])}.',
           f'Definition pattern_joiner : string := {coq_str(info["pattern_joiner"])}.',
           f'Definition pattern_take : nat := {info["pattern_take"]}.',
           f'Definition merchant_subs : list sub_spec := {_subs(info["merchant_subs"])}.',
           f'Definition merchant_prefixes : list string := {_strs(info["merchant_prefixes"])}.',
           f'Definition merchant_take : nat := {info["merchant_take"]}.',
           render_text(info['text'], 'source_text'), 'End C19Src.', '']
    return '\n'.join(out)


if __name__ == '__main__':
    import sys
    repo = sys.argv[1] if len(sys.argv) > 1 else os.environ.get('VERIF_REPO', '/repo')
    info = extract(os.path.join(repo, 'src', 'tally', 'commands', 'discover.py'))
    if len(sys.argv) > 2 and sys.argv[2] == '--expected':
        # prints the definition to paste into C19/Source.v
        print(render_text(info['text'], 'expected_' + ('fixed' if info['fixed'] else 'orig')))
    else:
        print(render(info))
