#!/usr/bin/env python3
"""Prints a markdown table of every committed known finding / fixed entry (for DESIGN.md §11)."""
import glob, json, os
HERE = os.path.dirname(os.path.dirname(os.path.abspath(__file__)))
rows = []
for p in [os.path.join(HERE, 'known_findings.jsonl')] + sorted(glob.glob(os.path.join(HERE, 'known_findings.d', '*.jsonl'))):
    for line in open(p):
        line = line.strip()
        if line and not line.startswith('#'):
            rows.append(json.loads(line))
rows.sort(key=lambda r: (r['property'], r.get('status') != 'fixed', r['signature']))
print('| property | status | signature | what |')
print('|---|---|---|---|')
for r in rows:
    what = r.get('what', '').replace('|', '\\|').replace('\n', ' ')
    if len(what) > 260:
        what = what[:257] + '…'
    st = r['status'] + (' ' + r.get('commit', '') if r['status'] == 'fixed' else '')
    print(f"| {r['property']} | {st} | `{r['signature']}` | {what} |")
print(f'\n{len(rows)} entries: {sum(1 for r in rows if r["status"]=="fixed")} fixed, {sum(1 for r in rows if r["status"]=="finding")} open findings.')
