"""Runs the seeded regressions of /verif/seeded/<id>/patch.diff for C01/C02/C09 against the checks, in a private scratch
copy of /repo, replays every counterexample on the seeded copy and on /repo, removes the copy.
Usage (from /verif): python3 tools/engine_seeds.py C01-1 C02-1 ..."""
import json, os, re, shutil, subprocess, sys
for sid in sys.argv[1:]:
    prop = sid.split('-')[0]
    d = f'/tmp/tally-eng-{os.getpid()}-{sid}'
    shutil.rmtree(d, ignore_errors=True)
    shutil.copytree(os.environ.get('SEED_BASE', '/repo'), d)   # SEED_BASE: apply the seed on top of another tree (e.g. a fixed copy)
    subprocess.run(['git', '-C', d, 'apply', f'/verif/seeded/{sid}/patch.diff'], check=True)
    env = dict(os.environ, VERIF_REPO=d)
    p = subprocess.run(['./check', prop, 'quick'], cwd='/verif', env=env, capture_output=True, text=True)
    print(f'### {sid}: exit={p.returncode}')
    for l in p.stdout.splitlines():
        if not l.startswith(('VIOLATION', '[')):
            continue
        print('   ', l[:220])
        m = re.search(r'replay=(\S+)', l)
        if m:
            o = json.load(open(m.group(1)))
            det = o.get('detail') or {}
            print('       oracle=%s kind=%s why=%s' % (o.get('oracle'), o.get('kind'), str(det.get('why') if isinstance(det, dict) else det)[:150]))
            if o.get('kind') == 'counterexample':
                a = subprocess.run(['./check', prop, '--replay', m.group(1)], cwd='/verif', env=env, capture_output=True, text=True).returncode
                b = subprocess.run(['./check', prop, '--replay', m.group(1)], cwd='/verif', capture_output=True, text=True).returncode
                print(f'       replay on seeded copy: exit={a}; on /repo: exit={b}')
                print('       ' + o.get('text', '').replace('\n', '\n       ')[:900])
                print('       txn:', o['case']['txns'][0])
    shutil.rmtree(d, ignore_errors=True)
