#!/usr/bin/env python3
"""Fail-closed Python-`ast` -> Gallina translator for the loop-free, typed subset used by
tally's leaf modules (classification.py first).  Anything outside the subset raises
Untranslatable: the caller treats that as a broken tie (see DESIGN 3.5b).

Numeric code is emitted over an abstract numeric signature (Section variables
num/nzero/nabs/ngt0/nadd/nsub/...) so the same output is instantiated at Z and at
PrimFloat.float.  `str.lower` is the section variable `lower_fn`.
"""
import ast
import sys


class Untranslatable(Exception):
    pass


def coq_string(s: str) -> str:
    for ch in s:
        if ord(ch) < 32 or ord(ch) > 126:
            raise Untranslatable(f"non-printable/non-ASCII string literal {s!r}")
    return '"' + s.replace('"', '""') + '"'


NUM_SECTION = ''


class FnTranslator:
    def __init__(self, mod, fn, known_fns, consts):
        self.mod = mod
        self.fn = fn
        self.known = known_fns
        self.consts = consts
        self.locals = set(a.arg for a in fn.args.args)

    def fail(self, node, why):
        raise Untranslatable(f"{self.fn.name}:{getattr(node, 'lineno', '?')}: {why}: {ast.dump(node)[:120]}")

    # ---- expressions -------------------------------------------------------------
    def expr(self, e):
        if isinstance(e, ast.Constant):
            if isinstance(e.value, bool):
                return 'true' if e.value else 'false'
            if isinstance(e.value, str):
                return coq_string(e.value)
            if isinstance(e.value, (int, float)) and e.value == 0:
                return '(nzero O)'
            self.fail(e, 'constant')
        if isinstance(e, ast.Name):
            if e.id in self.locals or e.id in self.consts:
                return e.id
            self.fail(e, 'unknown name')
        if isinstance(e, ast.BoolOp):
            op = '||' if isinstance(e.op, ast.Or) else '&&'
            # `tags or []` : optional list defaulting to empty
            if isinstance(e.op, ast.Or) and len(e.values) == 2 and isinstance(e.values[1], ast.List) \
                    and not e.values[1].elts:
                return f'(or_nil {self.expr(e.values[0])})'
            return '(' + f' {op} '.join(self.expr(v) for v in e.values) + ')%bool'
        if isinstance(e, ast.UnaryOp) and isinstance(e.op, ast.Not):
            return f'(negb {self.expr(e.operand)})'
        if isinstance(e, ast.Compare) and len(e.ops) == 1:
            l, op, r = e.left, e.ops[0], e.comparators[0]
            if isinstance(op, ast.In):
                return f'(mem {self.expr(l)} {self.expr(r)})'
            if isinstance(op, ast.NotIn):
                return f'(negb (mem {self.expr(l)} {self.expr(r)}))'
            if isinstance(r, ast.Constant) and r.value == 0 and not isinstance(r.value, bool):
                tbl = {ast.Gt: 'ngt0', ast.Lt: 'nlt0', ast.GtE: 'nge0', ast.LtE: 'nle0'}
                if type(op) in tbl:
                    return f'({tbl[type(op)]} O {self.expr(l)})'
            self.fail(e, 'comparison')
        if isinstance(e, ast.BinOp):
            if isinstance(e.op, ast.Add):
                return f'(nadd O {self.expr(e.left)} {self.expr(e.right)})'
            if isinstance(e.op, ast.Sub):
                return f'(nsub O {self.expr(e.left)} {self.expr(e.right)})'
            if isinstance(e.op, ast.BitAnd):
                return f'(set_inter {self.expr(e.left)} {self.expr(e.right)})'
            self.fail(e, 'binop')
        if isinstance(e, ast.Call):
            if e.keywords:
                self.fail(e, 'keyword args')
            if isinstance(e.func, ast.Name):
                f = e.func.id
                args = [self.expr(a) for a in e.args]
                if f == 'abs' and len(args) == 1:
                    return f'(nabs O {args[0]})'
                if f == 'bool' and len(args) == 1 and isinstance(e.args[0], ast.BinOp) \
                        and isinstance(e.args[0].op, ast.BitAnd):
                    a, b = e.args[0].left, e.args[0].right
                    return f'(inter_nonempty {self.expr(a)} {self.expr(b)})'
                if f in self.known:
                    return '(' + ' '.join([f, 'O'] + args) + ')'
                self.fail(e, 'call of unknown function')
            if isinstance(e.func, ast.Attribute) and e.func.attr == 'lower' and not e.args:
                return f'(lower_fn O {self.expr(e.func.value)})'
            self.fail(e, 'call')
        if isinstance(e, (ast.SetComp, ast.ListComp)):
            if len(e.generators) != 1 or e.generators[0].ifs or e.generators[0].is_async:
                self.fail(e, 'comprehension shape')
            g = e.generators[0]
            if not isinstance(g.target, ast.Name):
                self.fail(e, 'comprehension target')
            v = g.target.id
            self.locals.add(v)
            body = self.expr(e.elt)
            self.locals.discard(v)
            return f'(map (fun {v} => {body}) {self.expr(g.iter)})'
        if isinstance(e, ast.Subscript) and isinstance(e.slice, ast.Constant) and isinstance(e.slice.value, str):
            return f'(dget {self.expr(e.value)} {coq_string(e.slice.value)} (nzero O))'
        if isinstance(e, ast.Dict):
            items = []
            for k, v in zip(e.keys, e.values):
                if not (isinstance(k, ast.Constant) and isinstance(k.value, str)):
                    self.fail(e, 'dict key')
                items.append(f'({coq_string(k.value)}, {self.expr(v)})')
            return '[' + '; '.join(items) + ']'
        if isinstance(e, (ast.Set, ast.List, ast.Tuple)):
            return '[' + '; '.join(self.expr(x) for x in e.elts) + ']'
        self.fail(e, 'expression')

    # ---- statements --------------------------------------------------------------
    @staticmethod
    def _always_returns(stmts):
        if not stmts:
            return False
        last = stmts[-1]
        if isinstance(last, ast.Return):
            return True
        if isinstance(last, ast.If):
            return FnTranslator._always_returns(last.body) and FnTranslator._always_returns(last.orelse)
        return False

    @staticmethod
    def _contains_return(stmts):
        return any(isinstance(n, ast.Return) for s in stmts for n in ast.walk(s))

    def _assigned(self, stmts):
        out = []
        for s in stmts:
            for n in ast.walk(s):
                if isinstance(n, ast.Assign):
                    t = n.targets[0]
                    name = t.id if isinstance(t, ast.Name) else (
                        t.value.id if isinstance(t, ast.Subscript) and isinstance(t.value, ast.Name) else None)
                    if name and name not in out:
                        out.append(name)
        return out

    def block(self, stmts, tail):
        """Translate statements; `tail` is the Coq expression the block evaluates to when it
        falls off the end (None: falling off the end is a translation failure)."""
        if not stmts:
            if tail is None:
                raise Untranslatable(f'{self.fn.name}: control reaches end without return')
            return tail
        s, rest = stmts[0], stmts[1:]
        if isinstance(s, ast.Expr) and isinstance(s.value, ast.Constant) and isinstance(s.value.value, str):
            return self.block(rest, tail)  # docstring
        if isinstance(s, ast.Return):
            if s.value is None:
                self.fail(s, 'bare return')
            return self.expr(s.value)
        if isinstance(s, ast.Assign) and len(s.targets) == 1:
            t = s.targets[0]
            if isinstance(t, ast.Name):
                v = self.expr(s.value)
                self.locals.add(t.id)
                return f'let {t.id} := {v} in\n    {self.block(rest, tail)}'
            if isinstance(t, ast.Subscript) and isinstance(t.value, ast.Name) and t.value.id in self.locals \
                    and isinstance(t.slice, ast.Constant) and isinstance(t.slice.value, str):
                d = t.value.id
                return (f'let {d} := dset {d} {coq_string(t.slice.value)} {self.expr(s.value)} in\n'
                        f'    {self.block(rest, tail)}')
            self.fail(s, 'assignment target')
        if isinstance(s, ast.If):
            c = self.expr(s.test)
            if not self._contains_return([s]):
                w = [x for x in self._assigned([s])]
                for x in w:
                    if x not in self.locals:
                        self.fail(s, f'variable {x} first assigned inside a branch')
                tup = w[0] if len(w) == 1 else '(' + ', '.join(w) + ')'
                pat = w[0] if len(w) == 1 else "'(" + ', '.join(w) + ')'
                b1 = self.block(s.body, tup)
                b2 = self.block(s.orelse, tup)
                return (f'let {pat} := (if {c} then ({b1}) else ({b2})) in\n'
                        f'    {self.block(rest, tail)}')
            if self._always_returns(s.body):
                saved = set(self.locals)
                b1 = self.block(s.body, None)
                self.locals = set(saved)
                if s.orelse:
                    if not self._always_returns(s.orelse) and not rest and tail is None:
                        self.fail(s, 'else branch may fall through')
                    b2 = self.block(list(s.orelse) + list(rest), tail)
                else:
                    b2 = self.block(rest, tail)
                return f'if {c} then ({b1}) else ({b2})'
            self.fail(s, 'if with partial return')
        self.fail(s, 'statement')

    def translate(self):
        a = self.fn.args
        if a.vararg or a.kwarg or a.kwonlyargs or a.defaults or a.posonlyargs:
            raise Untranslatable(f'{self.fn.name}: unsupported signature')
        params = ' '.join(x.arg for x in a.args)
        body = self.block(self.fn.body, None)
        return f'  (* {self.mod}:{self.fn.lineno} *)\n  Definition {self.fn.name} {{num : Type}} (O : numops num) {params} :=\n    {body}.\n'


def translate_module(path, modname, section, want_fns=None):
    src = open(path).read()
    tree = ast.parse(src)
    consts, const_defs, fn_defs, known = {}, [], [], []
    for node in tree.body:
        if isinstance(node, ast.Expr) and isinstance(node.value, ast.Constant):
            continue
        if isinstance(node, (ast.Import, ast.ImportFrom)):
            if isinstance(node, ast.ImportFrom) and node.module == 'typing':
                continue
            raise Untranslatable(f'{modname}:{node.lineno}: import {ast.dump(node)[:80]}')
        if isinstance(node, (ast.Assign, ast.AnnAssign)):
            tgt = node.targets[0] if isinstance(node, ast.Assign) else node.target
            if not isinstance(tgt, ast.Name):
                raise Untranslatable(f'{modname}:{node.lineno}: module assignment target')
            dummy = ast.FunctionDef(name='<module>', args=ast.arguments(args=[], posonlyargs=[], kwonlyargs=[],
                                    kw_defaults=[], defaults=[]), body=[], decorator_list=[], lineno=node.lineno)
            ft = FnTranslator(modname, dummy, known, consts)
            v = ft.expr(node.value)
            consts[tgt.id] = v
            const_defs.append(f'  (* {modname}:{node.lineno} *)\n  Definition {tgt.id} := {v}.\n')
            continue
        if isinstance(node, ast.FunctionDef):
            if node.decorator_list:
                raise Untranslatable(f'{modname}:{node.lineno}: decorator')
            ft = FnTranslator(modname, node, list(known), consts)
            fn_defs.append(ft.translate())
            known.append(node.name)
            continue
        raise Untranslatable(f'{modname}:{node.lineno}: top-level {type(node).__name__}')
    if want_fns:
        missing = [f for f in want_fns if f not in known]
        if missing:
            raise Untranslatable(f'{modname}: expected functions missing: {missing}')
    out = [f'(* GENERATED by tools/py2coq.py from {modname} — do not edit *)',
           'From Coq Require Import String List Bool.', 'From Tally Require Import Lib.Str Lib.NumOps.',
           'Import ListNotations.', 'Open Scope string_scope.', '',
           f'Module {section}.', NUM_SECTION]
    out += const_defs + fn_defs + [f'End {section}.', '']
    return '\n'.join(out)


if __name__ == '__main__':
    print(translate_module(sys.argv[1], sys.argv[2], sys.argv[3]))
