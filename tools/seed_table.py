#!/usr/bin/env python3
"""Markdown table of the seeded changes of rounds 4 onwards (from seeded/*/meta.json) for DESIGN.md §10b."""
import glob, json, os, re
HERE = os.path.dirname(os.path.dirname(os.path.abspath(__file__)))
rows = []
for p in sorted(glob.glob(os.path.join(HERE, 'seeded', '*', 'meta.json')), key=lambda x: (x.split('/')[-2].split('-')[0], int(x.split('/')[-2].split('-')[1]))):
    m = json.load(open(p))
    if 'round' not in str(m.get('produced_by', '')):
        continue
    cr = m.get('check_result') if isinstance(m.get('check_result'), dict) else {}
    rows.append((m['id'], m.get('check_with') or m['breaks_property'], m['what'].replace('|', '\\|'), cr.get('first_run', '?'), cr.get('final', 'pending')))
print('| seed | check | change | first run | after strengthening |')
print('|---|---|---|---|---|')
for r in rows:
    print('| ' + ' | '.join(r) + ' |')
first = [r[3] for r in rows]
fin = [r[4] for r in rows]
def cnt(xs, pat): return sum(1 for x in xs if x.startswith(pat))
import collections
byround = collections.OrderedDict()
for p in sorted(glob.glob(os.path.join(HERE, 'seeded', '*', 'meta.json'))):
    m = json.load(open(p))
    mm = re.search(r'round (\d+)', str(m.get('produced_by', '')))
    if not mm:
        continue
    cr = m.get('check_result') if isinstance(m.get('check_result'), dict) else {}
    d = byround.setdefault(int(mm.group(1)), collections.Counter())
    d['n'] += 1
    d['first:' + str(cr.get('first_run', '?')).split(' (')[0]] += 1
    d['final:' + str(cr.get('final', 'pending')).split(' (')[0]] += 1
print('\n| round | seeds | first run: with input / no-input / missed | after strengthening: with input / no-input / missed |')
print('|---|---|---|---|')
for r in sorted(byround):
    d = byround[r]
    print(f"| {r} | {d['n']} | {d['first:CAUGHT']} / {d['first:CAUGHT-NOINPUT']} / {d['first:MISSED']} | {d['final:CAUGHT']} / {d['final:CAUGHT-NOINPUT']} / {d['final:MISSED']} |")
print(f'\n{len(rows)} seeds. First run: {cnt(first,"CAUGHT (")} caught with a concrete input, {cnt(first,"CAUGHT-NOINPUT")} only as no-failing-input-found, '
      f'{cnt(first,"MISSED")} missed. After strengthening: {cnt(fin,"CAUGHT (")} with input, {cnt(fin,"CAUGHT-NOINPUT")} no-input, {cnt(fin,"MISSED")} missed, {cnt(fin,"pending")} pending.')
