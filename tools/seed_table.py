#!/usr/bin/env python3
"""Markdown table of the round-4/5 seeded changes (from seeded/*/meta.json) for DESIGN.md §10b."""
import glob, json, os, re
HERE = os.path.dirname(os.path.dirname(os.path.abspath(__file__)))
rows = []
for p in sorted(glob.glob(os.path.join(HERE, 'seeded', '*', 'meta.json')), key=lambda x: (x.split('/')[-2].split('-')[0], int(x.split('/')[-2].split('-')[1]))):
    m = json.load(open(p))
    if 'round' not in str(m.get('produced_by', '')):
        continue
    cr = m.get('check_result') if isinstance(m.get('check_result'), dict) else {}
    rows.append((m['id'], m.get('check_with') or m['breaks_property'], m['what'].replace('|', '\\|'), cr.get('first_run', '?'), cr.get('final', 'pending')))
print('| seed | check | change | first run | after strengthening |')
print('|---|---|---|---|---|')
for r in rows:
    print('| ' + ' | '.join(r) + ' |')
first = [r[3] for r in rows]
fin = [r[4] for r in rows]
def cnt(xs, pat): return sum(1 for x in xs if x.startswith(pat))
print(f'\n{len(rows)} seeds. First run: {cnt(first,"CAUGHT (")} caught with a concrete input, {cnt(first,"CAUGHT-NOINPUT")} only as no-failing-input-found, '
      f'{cnt(first,"MISSED")} missed. After strengthening: {cnt(fin,"CAUGHT (")} with input, {cnt(fin,"CAUGHT-NOINPUT")} no-input, {cnt(fin,"MISSED")} missed, {cnt(fin,"pending")} pending.')
