#!/bin/bash
# confirm_seed.sh <worktree> <patch.diff> <demo> — confirm a seeded change: applies in the scratch worktree,
# runs the baseline test-suite there, runs the demo on the patched and on the pristine tree, resets the worktree.
set -u
WT=$1; PATCH=$2; DEMO=$3
cd "$WT" || exit 2
git checkout -q -- . && git apply "$PATCH" || { echo "patch does not apply"; exit 2; }
echo "--- test-suite on patched tree"
PYTHONPATH="$WT/src" /venv/bin/python -m pytest -q -p no:cacheprovider --timeout=900 --continue-on-collection-errors -x --deselect tests/test_cli.py --ignore=tests/test_report_html.py 2>&1 | grep -v WARNING | tail -2
PYTHONPATH="$WT/src" /venv/bin/python -m pytest -q -p no:cacheprovider --timeout=900 --continue-on-collection-errors 2>&1 | grep -v WARNING | tail -1
echo "--- demo on patched tree (expect non-zero)"
case "$DEMO" in *.py) /venv/bin/python "$DEMO" "$WT" >/dev/null 2>&1; echo "exit=$?";; *) bash "$DEMO" "$WT" >/dev/null 2>&1; echo "exit=$?";; esac
git checkout -q -- .
echo "--- demo on pristine tree (expect 0)"
case "$DEMO" in *.py) /venv/bin/python "$DEMO" "$WT" >/dev/null 2>&1; echo "exit=$?";; *) bash "$DEMO" "$WT" >/dev/null 2>&1; echo "exit=$?";; esac
