#!/bin/bash
# run_all.sh [quick|thorough] — run every check registered in MANIFEST.json on /repo's current tree
# and summarise exit status / VIOLATION / KNOWN-FINDING lines. Logs under .work/runall/.
cd "$(dirname "$0")/.."
TIER=${1:-quick}
mkdir -p .work/runall
for id in $(python3 -c "import json; print(' '.join(c['property_id'] for c in json.load(open('MANIFEST.json'))['checks']))"); do
  start=$(date +%s)
  ./check $id $TIER > .work/runall/$id.log 2>&1
  rc=$?
  end=$(date +%s)
  v=$(grep -c '^VIOLATION' .work/runall/$id.log)
  k=$(grep -c '^KNOWN-FINDING' .work/runall/$id.log)
  echo "$id rc=$rc violations=$v known=$k wall=$((end-start))s  $(grep '^\[' .work/runall/$id.log | tail -1)"
done
